package main

import (
	"crypto/sha256"
	"fmt"
	"go/types"
	"os"
	"path/filepath"
	"sort"
	"strings"

	"golang.org/x/tools/go/packages"
	"golang.org/x/tools/go/ssa"
	"golang.org/x/tools/go/ssa/ssautil"
)

type Program struct {
	Prog    *ssa.Program
	Pkgs    []*packages.Package
	SSAPkgs map[string]*ssa.Package
	Sizes   types.Sizes
	Mode    Mode
	Budget  int
	Verbose bool

	MapOrder       func(e *Exec, entries []*mapEntry) []*mapEntry
	IntrinsicNames map[string]bool
	NoInit         map[string]bool // packages whose init function is not executed
	RepoDir        string
	NoIfConv       bool
	IntBits        bool // experimental: bit operations on undetermined symbolic integers via int2bv/bv2int (slow in Z3)
	SymMaps        bool // maps may hold symbolic keys (key equality decided on the path) instead of concretising keys
	MapOrderBudget int // max number of reversed map iterations per path under verifMapOrder(1)
	Subst          map[*ssa.Function]*ssa.Function // verified-contract substitutions (callee -> harness contract function)
	Shadow         bool // validate every symbolic operation against its concrete semantics under the path's model
	Concrete       map[string]string // if set: nondet inputs take these concrete values (translator validation / debugging)
	pur            *purity
}

// packages whose initialisers are never run by the interpreter (they need the runtime, reflection, regexps, I/O).
var defaultNoInit = []string{
	"runtime", "reflect", "os", "syscall", "regexp", "regexp/syntax", "encoding/json", "fmt", "log", "time", "sync",
	"unicode", "strconv", "io", "io/fs", "embed", "errors", "internal/", "testing",
	"github.com/go-playground/", "github.com/perimeterx/", "github.com/creasty/",
	"github.com/go-spatial/geom/encoding", "github.com/go-spatial/geom/slippy", "github.com/mattn/",
}

func (p *Program) InitOK(path string) bool {
	for _, pre := range defaultNoInit {
		if path == pre || (strings.HasSuffix(pre, "/") && strings.HasPrefix(path, pre)) || strings.HasPrefix(path, pre+"/") {
			return false
		}
	}
	return !p.NoInit[path]
}

// LoadProgram loads the packages (with overlay files) from dir and builds SSA for them and all dependencies.
func LoadProgram(dir string, patterns []string, overlay map[string][]byte) (*Program, error) {
	cfg := &packages.Config{
		Mode: packages.NeedName | packages.NeedFiles | packages.NeedCompiledGoFiles | packages.NeedImports | packages.NeedDeps |
			packages.NeedTypes | packages.NeedTypesSizes | packages.NeedSyntax | packages.NeedTypesInfo | packages.NeedModule,
		Dir:     dir,
		Overlay: overlay,
		Env:     append(os.Environ(), "GOFLAGS=-mod=mod", "GOPROXY=off", "GOSUMDB=off", "GOTOOLCHAIN=local", "CGO_ENABLED=1"),
	}
	pkgs, err := packages.Load(cfg, patterns...)
	if err != nil {
		return nil, err
	}
	var errs []string
	packages.Visit(pkgs, nil, func(p *packages.Package) {
		for _, e := range p.Errors {
			errs = append(errs, e.Error())
		}
	})
	if len(errs) > 0 {
		return nil, fmt.Errorf("package load errors:\n%s", strings.Join(errs, "\n"))
	}
	prog, spkgs := ssautil.AllPackages(pkgs, ssa.InstantiateGenerics|ssa.SanityCheckFunctions*0)
	prog.Build()
	p := &Program{Prog: prog, Pkgs: pkgs, SSAPkgs: map[string]*ssa.Package{}, Budget: 2000000, IntrinsicNames: map[string]bool{}, NoInit: map[string]bool{}, RepoDir: dir, pur: newPurity()}
	for i, sp := range spkgs {
		if sp != nil {
			p.SSAPkgs[pkgs[i].PkgPath] = sp
		}
	}
	p.Sizes = types.SizesFor("gc", "amd64")
	for _, n := range intrinsicNames {
		p.IntrinsicNames[n] = true
	}
	return p, nil
}

func (p *Program) Entry(pkgPath, fn string) (*ssa.Function, error) {
	sp := p.SSAPkgs[pkgPath]
	if sp == nil {
		return nil, fmt.Errorf("package %s not loaded", pkgPath)
	}
	f := sp.Func(fn)
	if f == nil {
		return nil, fmt.Errorf("function %s not found in %s", fn, pkgPath)
	}
	return f, nil
}

// Reachable lists the functions (with bodies) statically reachable from entry, for the evidence.
func (p *Program) Reachable(entry *ssa.Function) []*ssa.Function {
	seen := map[*ssa.Function]bool{}
	var out []*ssa.Function
	var visit func(f *ssa.Function)
	visit = func(f *ssa.Function) {
		if f == nil || seen[f] {
			return
		}
		seen[f] = true
		if f.Blocks == nil {
			return
		}
		out = append(out, f)
		for _, b := range f.Blocks {
			for _, in := range b.Instrs {
				var ops [10]*ssa.Value
				for _, op := range in.Operands(ops[:0]) {
					if op == nil || *op == nil {
						continue
					}
					switch v := (*op).(type) {
					case *ssa.Function:
						visit(v)
					case *ssa.MakeClosure:
						visit(v.Fn.(*ssa.Function))
					}
				}
				if c, ok := in.(ssa.CallInstruction); ok {
					if c.Common().Method != nil {
						// interface method: include all implementations in repo packages lazily (skipped)
					}
				}
			}
		}
	}
	visit(entry)
	return out
}

// RepoFunctions filters reachable functions to those defined in the repository (module github.com/pdok/texel),
// excluding harness files, and returns "pkg.Func@hash" strings.
func (p *Program) RepoFunctions(entry *ssa.Function) []string {
	var out []string
	for _, f := range p.Reachable(entry) {
		if f.Pkg == nil && f.Origin() != nil {
			f = f.Origin()
		}
		pos := p.Prog.Fset.Position(f.Pos())
		if !strings.HasPrefix(pos.Filename, p.RepoDir+"/") {
			continue
		}
		if strings.HasPrefix(filepath.Base(pos.Filename), "zz_verif") {
			continue
		}
		out = append(out, f.String())
	}
	sort.Strings(out)
	// dedupe
	var d []string
	for i, s := range out {
		if i == 0 || out[i-1] != s {
			d = append(d, s)
		}
	}
	return d
}

func fileHash(path string) string {
	b, err := os.ReadFile(path)
	if err != nil {
		return "missing"
	}
	return fmt.Sprintf("%x", sha256.Sum256(b))[:16]
}

// SetSubst installs contract substitutions given as "pkgpath.Func" -> "pkgpath.Contract"; pairs whose functions are
// missing or whose signatures differ are ignored (the original code is then interpreted). Returns what was applied.
func (p *Program) SetSubst(pairs map[string]string) []string {
	p.Subst = map[*ssa.Function]*ssa.Function{}
	var applied []string
	find := func(q string) *ssa.Function {
		i := strings.LastIndex(q, ".")
		if i < 0 {
			return nil
		}
		sp := p.SSAPkgs[repoModule+"/"+q[:i]]
		if sp == nil {
			sp = p.Prog.ImportedPackage(repoModule + "/" + q[:i])
		}
		if sp == nil {
			return nil
		}
		return sp.Func(q[i+1:])
	}
	keys := make([]string, 0, len(pairs))
	for k := range pairs {
		keys = append(keys, k)
	}
	sort.Strings(keys)
	for _, from := range keys {
		f, t := find(from), find(pairs[from])
		if f == nil || t == nil || !types.Identical(f.Signature, t.Signature) {
			continue
		}
		p.Subst[f] = t
		applied = append(applied, from+" -> "+pairs[from])
	}
	return applied
}
