package main

// Models of harness API functions and of library functions the interpreter does not execute from source.

import (
	"fmt"
	"go/token"
	"go/types"
	"math"
	"math/big"
	"math/bits"
	"regexp"
	"strconv"
	"strings"

	"golang.org/x/tools/go/ssa"
)

func (e *Exec) strArg(v Value) string {
	s, ok := v.(string)
	if !ok {
		e.unsupported("harness API: string argument must be concrete")
	}
	return s
}

func (e *Exec) i64Arg(v Value) int64 {
	u, ok := v.(uint64)
	if !ok {
		e.unsupported("harness API: bound argument must be concrete")
	}
	return int64(u)
}

// intrinsic returns (result, true) if fn is modelled here.
func (e *Exec) intrinsic(caller *frame, fn *ssa.Function, name string, args []Value) (Value, bool) {
	short := fn.Name()
	if strings.HasPrefix(short, "verif") {
		if v, ok := e.harnessAPI(caller, fn, short, args); ok {
			return v, true
		}
	}
	if !e.P.IntrinsicNames[name] {
		// generic instances: match on the origin's name
		if o := fn.Origin(); o != nil && e.P.IntrinsicNames[o.String()] {
			name = o.String()
		} else {
			return nil, false
		}
	}
	switch name {
	case "math.Pow":
		x, xok := args[0].(float64)
		y, yok := args[1].(float64)
		if !xok || !yok {
			e.unsupported("math.Pow with symbolic arguments")
		}
		return math.Pow(x, y), true
	case "math.Log2", "math.Sqrt", "math.Floor", "math.Ceil", "math.Trunc", "math.Log", "math.Log10", "math.Exp":
		x, ok := args[0].(float64)
		if !ok {
			e.unsupported("%s with symbolic argument", name)
		}
		switch name {
		case "math.Log2":
			return math.Log2(x), true
		case "math.Sqrt":
			return math.Sqrt(x), true
		case "math.Floor":
			return math.Floor(x), true
		case "math.Ceil":
			return math.Ceil(x), true
		case "math.Trunc":
			return math.Trunc(x), true
		case "math.Log":
			return math.Log(x), true
		case "math.Log10":
			return math.Log10(x), true
		case "math.Exp":
			return math.Exp(x), true
		}
	case "math.Round":
		switch x := args[0].(type) {
		case float64:
			return math.Round(x), true
		case *Term:
			return e.tf.FPUn("fp.round", x), true
		case *Rat:
			if x.Inexact {
				e.res.InexactUse++
				e.end("inconclusive", "math.Round of an inexact float (math mode)")
			}
			f := e.tf
			d2 := f.Int(new(big.Int).Lsh(x.Den, 1))
			dn := f.Int(x.Den)
			n2 := f.Mul(f.Int64(2), x.Num)
			pos := f.Div(f.Add(n2, dn), d2)
			neg := f.Neg(f.Div(f.Add(f.Neg(n2), dn), d2))
			return e.ratFinish(f.Ite(f.Cmp("<=", f.Int64(0), x.Num), pos, neg), big.NewInt(1), false), true
		}
	case "math.Abs":
		switch x := args[0].(type) {
		case float64:
			return math.Abs(x), true
		case *Term:
			return e.tf.FPUn("fp.abs", x), true
		case *Rat:
			f := e.tf
			return &Rat{Num: f.Ite(f.Cmp("<", x.Num, f.Int64(0)), f.Neg(x.Num), x.Num), Den: x.Den, Inexact: x.Inexact}, true
		}
	case "math.Signbit":
		switch x := args[0].(type) {
		case float64:
			return math.Signbit(x), true
		case *Term:
			return e.simpBool(e.tf.Or(e.tf.FPPred("fp.isNegative", x), e.tf.And(e.tf.FPPred("fp.isNaN", x), e.tf.Bool(false)))), true
		case *Rat:
			e.note("math.Signbit in math mode: negative zero is not modelled (Signbit(x) == x<0)")
			return e.simpBool(e.tf.Cmp("<", x.Num, e.tf.Int64(0))), true
		}
	case "math.IsNaN":
		switch x := args[0].(type) {
		case float64:
			return math.IsNaN(x), true
		case *Term:
			return e.simpBool(e.tf.FPPred("fp.isNaN", x)), true
		case *Rat:
			return false, true
		}
	case "math.IsInf":
		switch x := args[0].(type) {
		case float64:
			return math.IsInf(x, int(int64(args[1].(uint64)))), true
		case *Rat:
			return false, true
		}
	case "math.Max", "math.Min":
		x, xok := args[0].(float64)
		y, yok := args[1].(float64)
		if !xok || !yok {
			e.unsupported("%s with symbolic arguments", name)
		}
		if name == "math.Max" {
			return math.Max(x, y), true
		}
		return math.Min(x, y), true
	case "math.Inf":
		return math.Inf(int(int64(args[0].(uint64)))), true
	case "math.NaN":
		return math.NaN(), true
	case "math.Nextafter":
		x, xok := args[0].(float64)
		y, yok := args[1].(float64)
		if !xok || !yok {
			e.unsupported("math.Nextafter with symbolic arguments")
		}
		return math.Nextafter(x, y), true
	case "math.Float64bits":
		if x, ok := args[0].(float64); ok {
			return math.Float64bits(x), true
		}
		e.unsupported("math.Float64bits of a symbolic float")
	case "math.Float64frombits":
		if x, ok := args[0].(uint64); ok {
			return math.Float64frombits(x), true
		}
		e.unsupported("math.Float64frombits of a symbolic value")
	case "math/bits.Mul64":
		return e.mul64(args[0], args[1]), true
	case "math/bits.Add64":
		return e.add64(args[0], args[1], args[2]), true
	case "math/bits.Sub64":
		return e.sub64(args[0], args[1], args[2]), true
	case "fmt.Sprint", "fmt.Sprintln":
		return e.sprint(args[0].(Slice)), true
	case "fmt.Sprintf":
		return e.sprintf(e.strArg(args[0]), args[1].(Slice)), true
	case "fmt.Errorf":
		return e.errorf(e.strArg(args[0]), args[1].(Slice)), true
	case "fmt.Fprintf", "fmt.Fprintln", "fmt.Fprint", "fmt.Printf", "fmt.Println", "fmt.Print":
		return Tuple{uint64(0), Iface{}}, true
	case "log.Println", "log.Printf", "log.Print":
		return nil, true
	case "log.Fatalf", "log.Fatal", "log.Fatalln", "os.Exit":
		e.end("ok", "process exit requested by "+name)
	case "errors.As":
		return e.errorsAs(caller, args[0].(Iface), args[1].(Iface)), true
	case "strconv.Itoa":
		return strconv.Itoa(int(int64(e.concInt(args[0], types.Typ[types.Int])))), true
	case "strconv.Atoi":
		s := e.strArg(args[0])
		n, err := strconv.Atoi(s)
		if err != nil {
			return Tuple{uint64(0), e.newError("strconv.Atoi: parsing " + strconv.Quote(s) + ": invalid syntax")}, true
		}
		return Tuple{uint64(int64(n)), Iface{}}, true
	case "(*sync.WaitGroup).Add":
		e.wgAdd(args[0].(*Value), int64(e.concInt(args[1], types.Typ[types.Int])))
		return nil, true
	case "(*sync.WaitGroup).Done":
		e.wgAdd(args[0].(*Value), -1)
		return nil, true
	case "(*sync.WaitGroup).Wait":
		e.wgWait(args[0].(*Value))
		return nil, true
	case "(*sync.Mutex).Lock", "(*sync.Mutex).Unlock", "(*sync.RWMutex).Lock", "(*sync.RWMutex).Unlock", "(*sync.RWMutex).RLock", "(*sync.RWMutex).RUnlock":
		return nil, true
	case "runtime.Gosched":
		e.yield()
		return nil, true
	case "runtime.GOMAXPROCS", "runtime.NumCPU":
		// environment stub: the number of processors is an arbitrary value in 1..4 (an input of the path, so that
		// code whose synchronisation depends on it is explored for each value; native replay sets GOMAXPROCS to it)
		v, _ := e.harnessAPI(caller, fn, "verifNondetInt", []Value{"env_gomaxprocs", uint64(1), uint64(4)})
		return e.concInt(v, types.Typ[types.Int]), true
	case "reflect.ValueOf":
		return Native{reflectVal{args[0].(Iface)}}, true
	case "(reflect.Value).IsZero":
		rv := args[0].(Native).V.(reflectVal)
		if rv.v.T == nil {
			panic(targetPanic{v: Iface{T: types.Typ[types.String], V: "reflect: call of reflect.Value.IsZero on zero Value"}})
		}
		switch r := e.equal(rv.v.T, rv.v.V, zero(rv.v.T)).(type) {
		case bool:
			return r, true
		case *Term:
			return e.simpBool(r), true
		}
	case "internal/reflectlite.ValueOf":
		return Native{reflectVal{args[0].(Iface)}}, true
	case "(internal/reflectlite.Value).Len":
		rv := args[0].(Native).V.(reflectVal)
		if sl, ok := rv.v.V.(Slice); ok {
			return uint64(len(sl.A)), true
		}
		e.unsupported("reflectlite.Value.Len on %T", rv.v.V)
	case "internal/reflectlite.Swapper":
		iv := args[0].(Iface)
		sl, ok := iv.V.(Slice)
		if !ok {
			e.unsupported("reflectlite.Swapper on %T", iv.V)
		}
		return NativeFunc(func(e *Exec, a []Value) Value {
			i := int(int64(e.concInt(a[0], types.Typ[types.Int])))
			j := int(int64(e.concInt(a[1], types.Typ[types.Int])))
			if i < 0 || j < 0 || i >= len(sl.A) || j >= len(sl.A) {
				panic(rtPanic("reflect: slice index out of range"))
			}
			sl.A[i], sl.A[j] = sl.A[j], sl.A[i]
			return nil
		}), true
	case "regexp.MustCompile":
		return Native{regexp.MustCompile(e.strArg(args[0]))}, true
	case "(*regexp.Regexp).Match":
		return args[0].(Native).V.(*regexp.Regexp).Match(e.bytesArg(args[1])), true
	case "(*regexp.Regexp).MatchString":
		return args[0].(Native).V.(*regexp.Regexp).MatchString(e.strArg(args[1])), true
	case "(*regexp.Regexp).FindStringSubmatch":
		r := args[0].(Native).V.(*regexp.Regexp).FindStringSubmatch(e.strArg(args[1]))
		if r == nil {
			return Slice{Nil: true}, true
		}
		a := make([]Value, len(r))
		for i := range r {
			a[i] = r[i]
		}
		return Slice{A: a}, true
	case "strings.ToLower":
		return strings.ToLower(e.strArg(args[0])), true
	case "strings.ToUpper":
		return strings.ToUpper(e.strArg(args[0])), true
	case "strings.Contains":
		return strings.Contains(e.strArg(args[0]), e.strArg(args[1])), true
	case "strings.HasPrefix":
		return strings.HasPrefix(e.strArg(args[0]), e.strArg(args[1])), true
	case "strings.HasSuffix":
		return strings.HasSuffix(e.strArg(args[0]), e.strArg(args[1])), true
	case "strings.Repeat":
		return strings.Repeat(e.strArg(args[0]), int(int64(e.concInt(args[1], types.Typ[types.Int])))), true
	case "strconv.ParseUint":
		v, err := strconv.ParseUint(e.strArg(args[0]), int(int64(args[1].(uint64))), int(int64(args[2].(uint64))))
		if err != nil {
			return Tuple{v, e.newError(err.Error())}, true
		}
		return Tuple{v, Iface{}}, true
	case "strconv.ParseInt":
		v, err := strconv.ParseInt(e.strArg(args[0]), int(int64(args[1].(uint64))), int(int64(args[2].(uint64))))
		if err != nil {
			return Tuple{uint64(v), e.newError(err.Error())}, true
		}
		return Tuple{uint64(v), Iface{}}, true
	}
	return nil, false
}

type reflectVal struct{ v Iface }

// NativeFunc is a function value implemented by the interpreter itself.
type NativeFunc func(e *Exec, args []Value) Value

// Native wraps an opaque natively evaluated object (e.g. a compiled regular expression).
type Native struct{ V any }

func (e *Exec) bytesArg(v Value) []byte {
	s := v.(Slice)
	b := make([]byte, len(s.A))
	for i := range s.A {
		c, ok := s.A[i].(uint64)
		if !ok {
			e.unsupported("symbolic byte in native call")
		}
		b[i] = byte(c)
	}
	return b
}

var intrinsicNames = []string{
	"math.Pow", "math.Log2", "math.Sqrt", "math.Floor", "math.Ceil", "math.Trunc", "math.Log", "math.Log10", "math.Exp",
	"math.Max", "math.Min", "math.Round", "math.Abs", "math.Signbit", "math.IsNaN", "math.IsInf", "math.Inf", "math.NaN", "math.Nextafter",
	"math.Float64bits", "math.Float64frombits", "math/bits.Mul64", "math/bits.Add64", "math/bits.Sub64",
	"fmt.Sprint", "fmt.Sprintln", "fmt.Sprintf", "fmt.Errorf", "fmt.Fprintf", "fmt.Fprintln", "fmt.Fprint", "fmt.Printf", "fmt.Println", "fmt.Print",
	"log.Println", "log.Printf", "log.Print", "log.Fatalf", "log.Fatal", "log.Fatalln", "os.Exit",
	"errors.As", "strconv.Itoa", "strconv.Atoi",
	"(*sync.WaitGroup).Add", "(*sync.WaitGroup).Done", "(*sync.WaitGroup).Wait",
	"(*sync.Mutex).Lock", "(*sync.Mutex).Unlock", "(*sync.RWMutex).Lock", "(*sync.RWMutex).Unlock", "(*sync.RWMutex).RLock", "(*sync.RWMutex).RUnlock",
	"runtime.Gosched", "runtime.GOMAXPROCS", "runtime.NumCPU",
	"reflect.ValueOf", "(reflect.Value).IsZero", "internal/reflectlite.ValueOf", "(internal/reflectlite.Value).Len", "internal/reflectlite.Swapper",
	"regexp.MustCompile", "(*regexp.Regexp).Match", "(*regexp.Regexp).MatchString", "(*regexp.Regexp).FindStringSubmatch",
	"strings.ToLower", "strings.ToUpper", "strings.Contains", "strings.HasPrefix", "strings.HasSuffix", "strings.Repeat",
	"strconv.ParseUint", "strconv.ParseInt",
}

// ---------------------------------------------------------------- harness API

func (e *Exec) harnessAPI(caller *frame, fn *ssa.Function, short string, args []Value) (Value, bool) {
	f := e.tf
	if e.P.Concrete != nil && strings.HasPrefix(short, "verifNondet") {
		name := e.strArg(args[0])
		sv, ok := e.P.Concrete[name]
		switch short {
		case "verifNondetInt", "verifNondetInt64", "verifNondetDyadic":
			v := int64(0)
			if ok {
				v, _ = strconv.ParseInt(sv, 10, 64)
			} else if lo := e.i64Arg(args[1]); lo > 0 {
				v = lo
			} else if hi := e.i64Arg(args[2]); hi < 0 {
				v = hi
			}
			if v < e.i64Arg(args[1]) || v > e.i64Arg(args[2]) {
				e.end("infeasible", "concrete input out of declared range")
			}
			if short == "verifNondetDyadic" {
				return float64(v) / math.Ldexp(1, int(args[3].(uint64))), true
			}
			return uint64(v), true
		case "verifNondetUint", "verifNondetUint64":
			v := args[1].(uint64)
			if ok {
				v, _ = strconv.ParseUint(sv, 10, 64)
			}
			return v, true
		case "verifNondetBool":
			return sv == "true", true
		case "verifNondetFloat64":
			u, _ := strconv.ParseUint(sv, 0, 64)
			return math.Float64frombits(u), true
		}
	}
	switch short {
	case "verifNondetInt", "verifNondetInt64":
		name := e.strArg(args[0])
		lo, hi := big.NewInt(e.i64Arg(args[1])), big.NewInt(e.i64Arg(args[2]))
		if e.mode == ModeBits {
			t := e.declareInput(name, SBV, 64, nil, nil, "int")
			e.solver.Assert(f.And(f.BVCmp("bvsle", f.BV(lo, 64), t), f.BVCmp("bvsle", t, f.BV(hi, 64))))
			e.fixModelRange(name, lo, hi)
			return t, true
		}
		return e.declareInput(name, SInt, 0, lo, hi, "int"), true
	case "verifNondetUint", "verifNondetUint64":
		name := e.strArg(args[0])
		lo, hi := new(big.Int).SetUint64(args[1].(uint64)), new(big.Int).SetUint64(args[2].(uint64))
		if e.mode == ModeBits {
			t := e.declareInput(name, SBV, 64, nil, nil, "uint")
			e.solver.Assert(f.And(f.BVCmp("bvule", f.BV(lo, 64), t), f.BVCmp("bvule", t, f.BV(hi, 64))))
			e.fixModelRange(name, lo, hi)
			return t, true
		}
		return e.declareInput(name, SInt, 0, lo, hi, "uint"), true
	case "verifNondetBool":
		return e.declareInput(e.strArg(args[0]), SBool, 0, nil, nil, "bool"), true
	case "verifNondetDyadic":
		// value n / 2^shift with n in [lo,hi]
		name := e.strArg(args[0])
		lo, hi := big.NewInt(e.i64Arg(args[1])), big.NewInt(e.i64Arg(args[2]))
		shift := int(args[3].(uint64))
		if e.mode == ModeBits {
			t := e.declareInput(name, SBV, 64, nil, nil, "dyadic:"+strconv.Itoa(shift))
			e.solver.Assert(f.And(f.BVCmp("bvsle", f.BV(lo, 64), t), f.BVCmp("bvsle", t, f.BV(hi, 64))))
			e.fixModelRange(name, lo, hi)
			return f.FPBin("fp.div", f.FPFromBV(t, true), f.FP(math.Ldexp(1, shift))), true
		}
		t := e.declareInput(name, SInt, 0, lo, hi, "dyadic:"+strconv.Itoa(shift))
		return e.ratFinish(t, pow2(shift), false), true
	case "verifDyadicOf":
		shift := int(args[1].(uint64))
		switch n := args[0].(type) {
		case uint64:
			return float64(int64(n)) / math.Ldexp(1, shift), true
		case *Term:
			if e.mode == ModeBits {
				return f.FPBin("fp.div", f.FPFromBV(n, true), f.FP(math.Ldexp(1, shift))), true
			}
			return e.ratFinish(n, pow2(shift), false), true
		}
	case "verifFloatOfInt1e10":
		switch n := args[0].(type) {
		case uint64:
			return float64(int64(n)) / 1e10, true
		case *Term:
			if e.mode != ModeMath {
				e.unsupported("verifFloatOfInt1e10 needs math mode")
			}
			return &Rat{Num: n, Den: big.NewInt(10000000000), Inexact: true, Scaled: n}, true
		}
	case "verifNondetFloat64":
		if e.mode != ModeBits {
			e.unsupported("verifNondetFloat64 needs bits mode")
		}
		return e.declareInput(e.strArg(args[0]), SFP, 0, nil, nil, "f64"), true
	case "verifAssume":
		e.assume(args[0])
		return nil, true
	case "verifAssert":
		e.assertProp(args[0], e.strArg(args[1]))
		return nil, true
	case "verifCover":
		e.covers[e.strArg(args[0])] = true
		return nil, true
	case "verifNote":
		e.note(e.strArg(args[0]))
		return nil, true
	case "verifEvent":
		sc := e.sch()
		sc.events = append(sc.events, Event{G: sc.cur.id, Kind: "marker"})
		return nil, true
	case "verifSlow":
		e.yield()
		return nil, true
	case "verifMapOrder":
		e.mapOrderMode = int(int64(args[0].(uint64)))
		return nil, true
	case "verifEmit":
		e.res.Emits = append(e.res.Emits, e.strArg(args[0]))
		return nil, true
	case "verifConcretizeInt", "verifConcretizeUint", "verifConcretizeInt64":
		t := fn.Signature.Params().At(0).Type()
		return e.concInt(args[0], t), true
	case "verifConcretizeBool":
		return e.concBool(args[0]), true
	case "verifSymbolic":
		return true, true
	case "verifMulCmp":
		// sign(a*b - c*d), exact (no wrap)
		t := types.Typ[types.Int64]
		allc := true
		for _, a := range args {
			if _, ok := a.(uint64); !ok {
				allc = false
			}
		}
		if allc {
			l := new(big.Int).Mul(big.NewInt(int64(args[0].(uint64))), big.NewInt(int64(args[1].(uint64))))
			r := new(big.Int).Mul(big.NewInt(int64(args[2].(uint64))), big.NewInt(int64(args[3].(uint64))))
			return uint64(int64(l.Cmp(r))), true
		}
		if e.mode == ModeBits {
			ext := func(v Value) *Term { return f.Extend(e.intTerm(v, t), true, 128) }
			l := f.BVBin("bvmul", ext(args[0]), ext(args[1]))
			r := f.BVBin("bvmul", ext(args[2]), ext(args[3]))
			one, mone, z := f.BV(bigOne, 64), f.BV(big.NewInt(-1), 64), f.BV(bigZero, 64)
			return f.Ite(f.BVCmp("bvslt", l, r), mone, f.Ite(f.Eq(l, r), z, one)), true
		}
		l := f.Mul(e.intTerm(args[0], t), e.intTerm(args[1], t))
		r := f.Mul(e.intTerm(args[2], t), e.intTerm(args[3], t))
		return f.Ite(f.Cmp("<", l, r), f.Int64(-1), f.Ite(f.Eq(l, r), f.Int64(0), f.Int64(1))), true
	}
	return nil, false
}

// fixModelRange moves the default model value of a fresh BV input into its declared range.
func (e *Exec) fixModelRange(name string, lo, hi *big.Int) {
	mv := e.model[name]
	if mv.I == nil {
		return
	}
	v := toSigned(new(big.Int).Mod(mv.I, pow2(64)), 64)
	if v.Cmp(lo) < 0 || v.Cmp(hi) > 0 {
		e.model[name] = MVal{I: new(big.Int).Mod(lo, pow2(64))}
	}
}

// ---------------------------------------------------------------- 128-bit helpers

func (e *Exec) mul64(x, y Value) Value {
	cx, xc := x.(uint64)
	cy, yc := y.(uint64)
	if xc && yc {
		hi, lo := bits.Mul64(cx, cy)
		return Tuple{hi, lo}
	}
	f := e.tf
	t := types.Typ[types.Uint64]
	X, Y := e.intTerm(x, t), e.intTerm(y, t)
	if e.mode == ModeBits {
		p := f.BVBin("bvmul", f.Extend(X, false, 128), f.Extend(Y, false, 128))
		return Tuple{f.Extract(p, 127, 64), f.Extract(p, 63, 0)}
	}
	p := f.Mul(X, Y)
	m := f.Int(pow2(64))
	if p.hi != nil && p.lo != nil && p.lo.Sign() >= 0 && p.hi.Cmp(pow2(64)) < 0 {
		return Tuple{uint64(0), p}
	}
	return Tuple{f.Div(p, m), f.Mod(p, m)}
}

func (e *Exec) add64(x, y, c Value) Value {
	cx, xc := x.(uint64)
	cy, yc := y.(uint64)
	cc, ccc := c.(uint64)
	if xc && yc && ccc {
		s, co := bits.Add64(cx, cy, cc)
		return Tuple{s, co}
	}
	f := e.tf
	t := types.Typ[types.Uint64]
	X, Y, C := e.intTerm(x, t), e.intTerm(y, t), e.intTerm(c, t)
	if e.mode == ModeBits {
		s := f.BVBin("bvadd", f.BVBin("bvadd", f.Extend(X, false, 65), f.Extend(Y, false, 65)), f.Extend(C, false, 65))
		return Tuple{f.Extract(s, 63, 0), f.Extend(f.Extract(s, 64, 64), false, 64)}
	}
	s := f.Add(f.Add(X, Y), C)
	m := f.Int(pow2(64))
	return Tuple{f.Mod(s, m), f.Div(s, m)}
}

func (e *Exec) sub64(x, y, b Value) Value {
	cx, xc := x.(uint64)
	cy, yc := y.(uint64)
	cb, bc := b.(uint64)
	if xc && yc && bc {
		d, bo := bits.Sub64(cx, cy, cb)
		return Tuple{d, bo}
	}
	f := e.tf
	t := types.Typ[types.Uint64]
	X, Y, B := e.intTerm(x, t), e.intTerm(y, t), e.intTerm(b, t)
	if e.mode == ModeBits {
		d := f.BVBin("bvsub", f.BVBin("bvsub", f.Extend(X, false, 65), f.Extend(Y, false, 65)), f.Extend(B, false, 65))
		return Tuple{f.Extract(d, 63, 0), f.Extend(f.Extract(d, 64, 64), false, 64)}
	}
	d := f.Sub(f.Sub(X, Y), B)
	m := f.Int(pow2(64))
	return Tuple{f.Mod(d, m), f.Ite(f.Cmp("<", d, f.Int64(0)), f.Int64(1), f.Int64(0))}
}

// ---------------------------------------------------------------- fmt / errors

func (e *Exec) sprint(args Slice) Value {
	var sb strings.Builder
	for i, a := range args.A {
		if i > 0 {
			// fmt.Sprint adds spaces between operands when neither is a string
			_, s1 := args.A[i-1].(Iface).V.(string)
			_, s2 := a.(Iface).V.(string)
			if !s1 && !s2 {
				sb.WriteByte(' ')
			}
		}
		sb.WriteString(e.fmtValue(a))
	}
	return sb.String()
}

func (e *Exec) fmtValue(a Value) string {
	iv, ok := a.(Iface)
	if !ok {
		return goString(a)
	}
	if iv.T == nil {
		return "<nil>"
	}
	// error / Stringer
	for _, m := range []string{"Error", "String"} {
		if f := e.findMethod(iv.T, m); f != nil && f.Signature.Params().Len() == 0 && f.Signature.Results().Len() == 1 && isStringType(f.Signature.Results().At(0).Type()) {
			if s, ok := e.callFn(nil, f, []Value{iv.V}, nil).(string); ok {
				return s
			}
		}
	}
	var sb strings.Builder
	writeGo(&sb, iv.V, iv.T)
	return sb.String()
}

func (e *Exec) sprintf(format string, args Slice) string {
	var sb strings.Builder
	ai := 0
	for i := 0; i < len(format); i++ {
		c := format[i]
		if c != '%' {
			sb.WriteByte(c)
			continue
		}
		j := i + 1
		for j < len(format) && strings.ContainsRune("+-# 0123456789.", rune(format[j])) {
			j++
		}
		if j >= len(format) {
			break
		}
		verb := format[j]
		spec := format[i : j+1]
		i = j
		if verb == '%' {
			sb.WriteByte('%')
			continue
		}
		if ai >= len(args.A) {
			sb.WriteString("%!" + string(verb) + "(MISSING)")
			continue
		}
		a := args.A[ai]
		ai++
		sb.WriteString(e.fmtOne(spec, verb, a))
	}
	return sb.String()
}

// fmtOne formats one operand; integers, floats and strings go through the real fmt with the original verb.
func (e *Exec) fmtOne(spec string, verb byte, a Value) string {
	iv, ok := a.(Iface)
	if ok && iv.T != nil {
		switch v := iv.V.(type) {
		case uint64:
			if isIntType(iv.T) && strings.ContainsRune("dvxXobc", rune(verb)) {
				if isSigned(iv.T) {
					return fmt.Sprintf(spec, int64(v))
				}
				return fmt.Sprintf(spec, v)
			}
		case float64:
			if strings.ContainsRune("feEgGv", rune(verb)) {
				return fmt.Sprintf(spec, v)
			}
		case string:
			if verb == 's' || verb == 'v' || verb == 'q' {
				if e.findMethod(iv.T, "Error") == nil && e.findMethod(iv.T, "String") == nil {
					return fmt.Sprintf(spec, v)
				}
			}
		case bool:
			if verb == 't' || verb == 'v' {
				return fmt.Sprintf(spec, v)
			}
		}
	}
	if verb == 'T' && ok {
		if iv.T == nil {
			return "<nil>"
		}
		return iv.T.String()
	}
	return e.fmtValue(a)
}

func (e *Exec) newError(msg string) Value {
	pkg := e.P.Prog.ImportedPackage("errors")
	if pkg == nil {
		e.unsupported("errors package not loaded")
	}
	t := pkg.Type("errorString").Type()
	var v Value = Struct{msg}
	return Iface{T: types.NewPointer(t), V: &v}
}

func (e *Exec) errorf(format string, args Slice) Value {
	msg := e.sprintf(format, args)
	if strings.Contains(format, "%w") {
		pkg := e.P.Prog.ImportedPackage("fmt")
		if pkg != nil && pkg.Type("wrapError") != nil {
			for _, a := range args.A {
				if iv, ok := a.(Iface); ok && iv.T != nil && e.findMethod(iv.T, "Error") != nil {
					var v Value = Struct{msg, iv}
					return Iface{T: types.NewPointer(pkg.Type("wrapError").Type()), V: &v}
				}
			}
		}
	}
	return e.newError(msg)
}

func (e *Exec) errorsAs(caller *frame, err Iface, target Iface) Value {
	pt, ok := target.T.Underlying().(*types.Pointer)
	if !ok || target.V.(*Value) == nil {
		panic(targetPanic{v: Iface{T: types.Typ[types.String], V: "errors: target must be a non-nil pointer"}})
	}
	want := pt.Elem()
	for depth := 0; err.T != nil && depth < 20; depth++ {
		if types.Identical(err.T, want) {
			*(target.V.(*Value)) = copyVal(err.V)
			return true
		}
		if it, ok := want.Underlying().(*types.Interface); ok && types.Implements(err.T, it) {
			*(target.V.(*Value)) = err
			return true
		}
		f := e.findMethod(err.T, "Unwrap")
		if f == nil || f.Signature.Results().Len() != 1 {
			return false
		}
		next, ok := e.callFn(caller, f, []Value{err.V}, nil).(Iface)
		if !ok {
			return false
		}
		err = next
	}
	return false
}

var _ = token.ADD
var _ = fmt.Sprint

// findMethod looks up an exported method by name in the method set of a dynamic type (nil if absent).
func (e *Exec) findMethod(t types.Type, name string) *ssa.Function {
	if t == nil {
		return nil
	}
	if _, ok := t.Underlying().(*types.Interface); ok {
		return nil
	}
	ms := e.P.Prog.MethodSets.MethodSet(t)
	for i := 0; i < ms.Len(); i++ {
		sel := ms.At(i)
		if sel.Obj().Name() == name {
			return e.P.Prog.MethodValue(sel)
		}
	}
	return nil
}
