package main

// Cooperative goroutines for the interpreter: exactly one interpreted goroutine runs at a time (baton passing
// between real goroutines). Unbuffered/buffered channels, close, sync.WaitGroup. Every synchronisation event is logged.

import (
	"fmt"
	"go/types"
)

type gState int

const (
	gRunnable gState = iota
	gBlocked
	gDone
)

type G struct {
	id     int
	state  gState
	resume chan bool // true = continue, false = kill
	why    string
	fnName string
}

type waiter struct {
	g    *G
	val  Value // for senders
	recv *Value
	ok   *bool
	done bool
}

type Event struct {
	G    int    `json:"g"`
	Kind string `json:"kind"` // spawn send recv close wgadd wgwait wgwake return block
	Obj  int    `json:"obj"`  // channel / waitgroup / goroutine id
	Seq  int    `json:"seq"`  // per-object sequence number
	N    int    `json:"n"`    // delta for wgadd, payload index
}

type wgState struct {
	id      int
	count   int64
	waiters []*G
}

type Sched struct {
	gs      []*G
	cur     *G
	chans   int
	wgs     map[*Value]*wgState
	events  []Event
	seq     map[string]int
	crash   any // panic raised in a non-main goroutine, to be re-raised in G0
	dead    bool
	maxLive int
}

func (e *Exec) sch() *Sched {
	if e.sched == nil {
		g0 := &G{id: 0, state: gRunnable, resume: make(chan bool), fnName: "main"}
		e.sched = &Sched{gs: []*G{g0}, cur: g0, wgs: map[*Value]*wgState{}, seq: map[string]int{}}
	}
	return e.sched
}

func (s *Sched) log(kind string, obj int, n int) {
	k := fmt.Sprintf("%s%d", kind[:1], obj)
	if kind == "send" || kind == "recv" || kind == "close" {
		k = fmt.Sprintf("c%d%s", obj, kind)
	}
	s.seq[k]++
	s.events = append(s.events, Event{G: s.cur.id, Kind: kind, Obj: obj, Seq: s.seq[k], N: n})
}

func (e *Exec) makeChan(size int) *Chan {
	s := e.sch()
	s.chans++
	if size > 0 {
		s.log("mkbuffered", s.chans, size)
	}
	return &Chan{id: s.chans, cap: size}
}

func (e *Exec) goStart(fr *frame, fn Value, args []Value) {
	s := e.sch()
	g := &G{id: len(s.gs), state: gRunnable, resume: make(chan bool)}
	switch f := fn.(type) {
	case *Closure:
		g.fnName = f.Fn.String()
	default:
		g.fnName = fmt.Sprint(fn)
	}
	s.gs = append(s.gs, g)
	s.log("spawn", g.id, 0)
	go func() {
		if !<-g.resume {
			return
		}
		defer func() {
			r := recover()
			if r != nil {
				if _, isKill := r.(killG); isKill {
					return
				}
				// crash of the whole program: re-raise in G0
				s.crash = r
				g.state = gDone
				g0 := s.gs[0]
				s.cur = g0
				g0.state = gRunnable
				g0.resume <- true
				return
			}
			s.log("return", g.id, 0)
			g.state = gDone
			e.switchAway(g)
		}()
		e.call(nil, fn, args)
	}()
}

type killG struct{}

// switchAway hands the baton to the next runnable goroutine; the caller g is not runnable (blocked or done).
// If g is blocked it waits until resumed.
func (e *Exec) switchAway(g *G) {
	s := e.sched
	var next *G
	for _, c := range s.gs {
		if c.state == gRunnable && c != g {
			next = c
			break
		}
	}
	if next == nil {
		if g.state == gBlocked || g.id != 0 {
			// nobody can run
			if g.id == 0 || s.gs[0].state == gBlocked {
				// main is blocked: deadlock
				s.dead = true
				if g.id == 0 {
					e.killAll()
					e.end("deadlock", e.deadlockDetail())
				}
				// deadlock detected from a non-main goroutine: wake main to report
				s.crash = pathEnd{"deadlock", e.deadlockDetail()}
				g0 := s.gs[0]
				s.cur = g0
				g0.resume <- true
			}
			if g.state == gDone {
				return
			}
		} else {
			return
		}
	} else {
		s.cur = next
		next.resume <- true
		if g.state == gDone {
			return
		}
	}
	if !<-g.resume {
		panic(killG{})
	}
	if g.id == 0 && s.crash != nil {
		c := s.crash
		s.crash = nil
		e.killAll()
		panic(c)
	}
}

func (e *Exec) deadlockDetail() string {
	s := e.sched
	d := ""
	for _, g := range s.gs {
		if g.state == gBlocked {
			d += fmt.Sprintf("g%d(%s) blocked on %s; ", g.id, g.fnName, g.why)
		}
	}
	return d
}

// killAll terminates every parked goroutine except the caller (used when the path ends).
func (e *Exec) killAll() {
	s := e.sched
	if s == nil {
		return
	}
	for _, g := range s.gs[1:] {
		if g.state != gDone {
			g.state = gDone
			select {
			case g.resume <- false:
			default:
				// it is not parked on resume (cannot happen under baton discipline except for the current one)
			}
		}
	}
}

func (e *Exec) block(why string) {
	s := e.sch()
	g := s.cur
	g.state = gBlocked
	g.why = why
	e.switchAway(g)
}

func (e *Exec) yield() {
	s := e.sch()
	g := s.cur
	// stay runnable but let others go first
	var next *G
	for _, c := range s.gs {
		if c.state == gRunnable && c != g {
			next = c
			break
		}
	}
	if next == nil {
		return
	}
	s.cur = next
	next.resume <- true
	if !<-g.resume {
		panic(killG{})
	}
	if g.id == 0 && s.crash != nil {
		c := s.crash
		s.crash = nil
		e.killAll()
		panic(c)
	}
}

func (e *Exec) wake(g *G) {
	g.state = gRunnable
}

func (e *Exec) chanSend(c *Chan, v Value) {
	s := e.sch()
	if c == nil {
		e.block("send on nil channel")
		return
	}
	if c.closed {
		panic(targetPanic{v: Iface{T: types.Typ[types.String], V: "send on closed channel"}, runtime: true})
	}
	v = copyVal(v)
	// waiting receiver?
	for len(c.recvq) > 0 {
		w := c.recvq[0]
		c.recvq = c.recvq[1:]
		if w.done {
			continue
		}
		*w.recv = v
		*w.ok = true
		w.done = true
		s.log("send", c.id, 0)
		e.wake(w.g)
		return
	}
	if len(c.buf) < c.cap {
		c.buf = append(c.buf, v)
		s.log("send", c.id, 0)
		return
	}
	w := &waiter{g: s.cur, val: v}
	c.sendq = append(c.sendq, w)
	e.block(fmt.Sprintf("send on chan %d", c.id))
	if !w.done {
		// woken by close
		panic(targetPanic{v: Iface{T: types.Typ[types.String], V: "send on closed channel"}, runtime: true})
	}
}

func (e *Exec) chanRecv(c *Chan, commaOk bool, elem types.Type) Value {
	s := e.sch()
	ret := func(v Value, ok bool) Value {
		if commaOk {
			return Tuple{v, ok}
		}
		return v
	}
	if c == nil {
		e.block("receive from nil channel")
		return nil
	}
	if len(c.buf) > 0 {
		v := c.buf[0]
		c.buf = c.buf[1:]
		s.log("recv", c.id, 0)
		// refill from blocked sender
		for len(c.sendq) > 0 {
			w := c.sendq[0]
			c.sendq = c.sendq[1:]
			if w.done {
				continue
			}
			c.buf = append(c.buf, w.val)
			w.done = true
			s.log("send", c.id, 0)
			e.wake(w.g)
			break
		}
		return ret(v, true)
	}
	for len(c.sendq) > 0 {
		w := c.sendq[0]
		c.sendq = c.sendq[1:]
		if w.done {
			continue
		}
		w.done = true
		// log the send as performed by the sender
		cur := s.cur
		s.cur = w.g
		s.log("send", c.id, 0)
		s.cur = cur
		s.log("recv", c.id, 0)
		e.wake(w.g)
		return ret(w.val, true)
	}
	if c.closed {
		s.log("recv", c.id, -1)
		return ret(zero(elem), false)
	}
	var v Value
	var ok bool
	w := &waiter{g: s.cur, recv: &v, ok: &ok}
	c.recvq = append(c.recvq, w)
	e.block(fmt.Sprintf("receive on chan %d", c.id))
	if ok {
		s.log("recv", c.id, 0)
		return ret(v, true)
	}
	s.log("recv", c.id, -1)
	return ret(zero(elem), false)
}

func (e *Exec) chanClose(c *Chan) {
	s := e.sch()
	if c == nil {
		panic(targetPanic{v: Iface{T: types.Typ[types.String], V: "close of nil channel"}, runtime: true})
	}
	if c.closed {
		panic(targetPanic{v: Iface{T: types.Typ[types.String], V: "close of closed channel"}, runtime: true})
	}
	c.closed = true
	s.log("close", c.id, 0)
	for _, w := range c.recvq {
		if !w.done {
			w.done = true
			*w.ok = false
			e.wake(w.g)
		}
	}
	c.recvq = nil
	for _, w := range c.sendq {
		if !w.done {
			e.wake(w.g) // will panic: send on closed channel
		}
	}
	c.sendq = nil
}

func (e *Exec) selectOp(fr *frame, instr any) Value {
	e.unsupported("select statement")
	return nil
}

func (e *Exec) wg(p *Value) *wgState {
	s := e.sch()
	w, ok := s.wgs[p]
	if !ok {
		w = &wgState{id: len(s.wgs) + 1}
		s.wgs[p] = w
	}
	return w
}

func (e *Exec) wgAdd(p *Value, d int64) {
	s := e.sch()
	w := e.wg(p)
	w.count += d
	s.log("wgadd", w.id, int(d))
	if w.count < 0 {
		panic(targetPanic{v: Iface{T: types.Typ[types.String], V: "sync: negative WaitGroup counter"}, runtime: true})
	}
	if w.count == 0 {
		for _, g := range w.waiters {
			e.wake(g)
		}
		w.waiters = nil
	}
}

func (e *Exec) wgWait(p *Value) {
	s := e.sch()
	w := e.wg(p)
	s.log("wgwait", w.id, 0)
	for w.count > 0 {
		w.waiters = append(w.waiters, s.cur)
		e.block(fmt.Sprintf("WaitGroup %d (count %d)", w.id, w.count))
	}
	s.log("wgwake", w.id, 0)
}
