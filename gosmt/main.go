package main

import (
	"encoding/json"
	"flag"
	"fmt"
	"os"
	"path/filepath"
	"strings"
	"time"
)

const repoModule = "github.com/pdok/texel"

// overlayFor maps every harness file under hdir/<rel>/ onto repo/<rel>/.
func overlayFor(repo, hdir string) (map[string][]byte, error) {
	ov := map[string][]byte{}
	err := filepath.Walk(hdir, func(path string, info os.FileInfo, err error) error {
		if err != nil {
			return err
		}
		if info.IsDir() || !strings.HasSuffix(path, ".go") {
			return nil
		}
		rel, _ := filepath.Rel(hdir, path)
		b, err := os.ReadFile(path)
		if err != nil {
			return err
		}
		ov[filepath.Join(repo, rel)] = b
		return nil
	})
	return ov, err
}

func cmdRun(args []string) int {
	fs := flag.NewFlagSet("run", flag.ExitOnError)
	repo := fs.String("repo", "/repo", "repository directory")
	hdir := fs.String("hdir", "/verif/harness", "harness overlay directory")
	pkg := fs.String("pkg", "", "package path relative to the module (e.g. morton)")
	entry := fs.String("entry", "", "harness function")
	mode := fs.String("mode", "math", "math|bits")
	workers := fs.Int("workers", 8, "")
	solver := fs.String("solver", "z3-new", "")
	timeout := fs.Int("timeout", 60000, "per query ms")
	maxPaths := fs.Int("maxpaths", 0, "")
	budget := fs.Int("budget", 2000000, "instruction budget per path")
	logsmt := fs.String("logsmt", "", "")
	verbose := fs.Bool("v", false, "")
	fs.Parse(args)
	ov, err := overlayFor(*repo, *hdir)
	if err != nil {
		fmt.Fprintln(os.Stderr, err)
		return 2
	}
	t0 := time.Now()
	p, err := LoadProgram(*repo, []string{"./" + *pkg}, ov)
	if err != nil {
		fmt.Fprintln(os.Stderr, err)
		return 2
	}
	fmt.Fprintf(os.Stderr, "loaded in %.1fs\n", time.Since(t0).Seconds())
	if *mode == "bits" {
		p.Mode = ModeBits
	}
	p.Budget = *budget
	p.Verbose = *verbose
	fn, err := p.Entry(repoModule+"/"+*pkg, *entry)
	if err != nil {
		fmt.Fprintln(os.Stderr, err)
		return 2
	}
	res, err := Explore(p, fn, RunOpts{Workers: *workers, Solver: *solver, TimeoutMs: *timeout, MaxPaths: *maxPaths, LogSMT: *logsmt, Verbose: *verbose}, nil)
	if err != nil {
		fmt.Fprintln(os.Stderr, err)
		return 2
	}
	b, _ := json.MarshalIndent(res, "", " ")
	fmt.Println(string(b))
	return 0
}

func main() {
	if len(os.Args) < 2 {
		fmt.Fprintln(os.Stderr, "usage: gosmt run|check ...")
		os.Exit(2)
	}
	switch os.Args[1] {
	case "run":
		os.Exit(cmdRun(os.Args[2:]))
	case "check":
		os.Exit(cmdCheck(os.Args[2:]))
	case "specs":
		os.Exit(cmdSpecs())
	case "selftest":
		os.Exit(cmdSelftest(os.Args[2:]))
	}
	fmt.Fprintln(os.Stderr, "unknown command")
	os.Exit(2)
}
