package main

// C11: schedule-independent reasoning over the synchronisation events of one (canonical) execution.
//
// For a Kahn process network (checked here on the log: one sender and one receiver goroutine per channel, no select)
// the per-goroutine sequences of synchronisation events do not depend on the schedule. Every reachable global state
// is then a consistent cut of these sequences; the questions "can it deadlock?", "can ProcessFeatures return before
// a writer has finished?" are SMT queries over all consistent cuts.

import (
	"fmt"
	"strings"
)

type CutReport struct {
	Goroutines       int      `json:"goroutines"`
	Events           int      `json:"events"`
	KahnViolations   []string `json:"kahn_violations,omitempty"`
	DeadlockQuery    string   `json:"deadlock_query"`     // unsat = no reachable deadlock
	EarlyReturnQuery string   `json:"early_return_query"` // unsat = marker never passed before all others finished
	Witness          string   `json:"witness,omitempty"`
}

// analyseCuts builds and discharges the cut queries for one event log. marker is the index (in goroutine 0's
// sequence) of the event after which every other goroutine must be finished (-1: not checked).
func analyseCuts(events []Event, s *Solver) (*CutReport, error) {
	rep := &CutReport{Events: len(events)}
	// per-goroutine sequences
	maxG := 0
	for _, e := range events {
		if e.G > maxG {
			maxG = e.G
		}
		if e.Kind == "spawn" && e.Obj > maxG {
			maxG = e.Obj
		}
	}
	n := maxG + 1
	rep.Goroutines = n
	seq := make([][]Event, n)
	for _, e := range events {
		if e.Kind == "block" || e.Kind == "mkbuffered" {
			continue
		}
		seq[e.G] = append(seq[e.G], e)
	}
	// Kahn premises
	senders := map[int]map[int]bool{}
	receivers := map[int]map[int]bool{}
	closers := map[int]map[int]bool{}
	for _, e := range events {
		switch e.Kind {
		case "send":
			if senders[e.Obj] == nil {
				senders[e.Obj] = map[int]bool{}
			}
			senders[e.Obj][e.G] = true
		case "recv":
			if receivers[e.Obj] == nil {
				receivers[e.Obj] = map[int]bool{}
			}
			receivers[e.Obj][e.G] = true
		case "close":
			if closers[e.Obj] == nil {
				closers[e.Obj] = map[int]bool{}
			}
			closers[e.Obj][e.G] = true
		case "select":
			rep.KahnViolations = append(rep.KahnViolations, "select statement used")
		case "mkbuffered":
			rep.KahnViolations = append(rep.KahnViolations, fmt.Sprintf("channel %d is buffered (capacity %d): the rendezvous encoding of the cut queries does not apply", e.Obj, e.N))
		}
	}
	for c, gs := range senders {
		if len(gs) > 1 {
			rep.KahnViolations = append(rep.KahnViolations, fmt.Sprintf("channel %d has %d sending goroutines", c, len(gs)))
		}
		for g := range closers[c] {
			if !gs[g] && len(gs) > 0 {
				rep.KahnViolations = append(rep.KahnViolations, fmt.Sprintf("channel %d closed by goroutine %d which is not its sender", c, g))
			}
		}
	}
	for c, gs := range receivers {
		if len(gs) > 1 {
			rep.KahnViolations = append(rep.KahnViolations, fmt.Sprintf("channel %d has %d receiving goroutines", c, len(gs)))
		}
	}
	// index helpers: k-th send / recv on channel c
	type pos struct{ g, i int }
	sendAt := map[int][]pos{}
	recvAt := map[int][]pos{} // successful receives
	recvClosedAt := map[int][]pos{}
	closeAt := map[int]pos{}
	spawnAt := map[int]pos{}
	wgDone := map[int][]pos{}
	marker := -1
	for g := 0; g < n; g++ {
		for i, e := range seq[g] {
			switch e.Kind {
			case "send":
				sendAt[e.Obj] = append(sendAt[e.Obj], pos{g, i})
			case "recv":
				if e.N == -1 {
					recvClosedAt[e.Obj] = append(recvClosedAt[e.Obj], pos{g, i})
				} else {
					recvAt[e.Obj] = append(recvAt[e.Obj], pos{g, i})
				}
			case "close":
				closeAt[e.Obj] = pos{g, i}
			case "spawn":
				spawnAt[e.Obj] = pos{g, i}
			case "wgadd":
				if e.N < 0 {
					wgDone[e.Obj] = append(wgDone[e.Obj], pos{g, i})
				}
			case "marker":
				if g == 0 {
					marker = i
				}
			}
		}
	}
	var sb strings.Builder
	p := func(g int) string { return fmt.Sprintf("p%d", g) }
	done := func(x pos) string { return fmt.Sprintf("(> %s %d)", p(x.g), x.i) } // event x has happened
	for g := 0; g < n; g++ {
		fmt.Fprintf(&sb, "(declare-const %s Int)\n(assert (and (<= 0 %s) (<= %s %d)))\n", p(g), p(g), p(g), len(seq[g]))
	}
	// consistency
	for c, ss := range sendAt {
		rs := recvAt[c]
		for k := range ss {
			if k < len(rs) {
				// rendezvous: k-th send and k-th receive happen together
				fmt.Fprintf(&sb, "(assert (= %s %s))\n", done(ss[k]), done(rs[k]))
			} else {
				// a send that was never received in the canonical run cannot complete
				fmt.Fprintf(&sb, "(assert (not %s))\n", done(ss[k]))
			}
		}
	}
	for c, rs := range recvClosedAt {
		cl, ok := closeAt[c]
		for _, r := range rs {
			if ok {
				fmt.Fprintf(&sb, "(assert (=> %s %s))\n", done(r), done(cl))
			}
		}
	}
	for g, sp := range spawnAt {
		if g < n {
			fmt.Fprintf(&sb, "(assert (=> (> %s 0) %s))\n", p(g), done(sp))
			// a goroutine without events is "finished" as soon as spawned; nothing to add
		}
	}
	for g := 0; g < n; g++ {
		for i, e := range seq[g] {
			if e.Kind == "wgwake" {
				for _, d := range wgDone[e.Obj] {
					fmt.Fprintf(&sb, "(assert (=> %s %s))\n", done(pos{g, i}), done(d))
				}
			}
		}
	}
	base := sb.String()
	// enabledness of the next event of goroutine g at the cut
	enabled := func(g int) string {
		var alts []string
		for i, e := range seq[g] {
			at := fmt.Sprintf("(= %s %d)", p(g), i)
			var en string
			switch e.Kind {
			case "send":
				// enabled iff the matching receive is the receiver's next event
				k := -1
				for j, s := range sendAt[e.Obj] {
					if s.g == g && s.i == i {
						k = j
					}
				}
				if k >= 0 && k < len(recvAt[e.Obj]) {
					r := recvAt[e.Obj][k]
					en = fmt.Sprintf("(= %s %d)", p(r.g), r.i)
				} else {
					en = "false"
				}
			case "recv":
				if e.N == -1 {
					if cl, ok := closeAt[e.Obj]; ok {
						en = done(cl)
					} else {
						en = "false"
					}
				} else {
					k := -1
					for j, r := range recvAt[e.Obj] {
						if r.g == g && r.i == i {
							k = j
						}
					}
					if k >= 0 && k < len(sendAt[e.Obj]) {
						sd := sendAt[e.Obj][k]
						en = fmt.Sprintf("(= %s %d)", p(sd.g), sd.i)
					} else {
						en = "false"
					}
				}
			case "wgwake":
				var cs []string
				for _, d := range wgDone[e.Obj] {
					cs = append(cs, done(d))
				}
				if len(cs) == 0 {
					en = "true"
				} else {
					en = "(and " + strings.Join(cs, " ") + ")"
				}
			default:
				en = "true"
			}
			alts = append(alts, fmt.Sprintf("(and %s %s)", at, en))
		}
		if len(alts) == 0 {
			return "false"
		}
		return "(or " + strings.Join(alts, " ") + ")"
	}
	started := func(g int) string {
		if g == 0 {
			return "true"
		}
		if sp, ok := spawnAt[g]; ok {
			return done(sp)
		}
		return "false"
	}
	// deadlock: some started goroutine unfinished, nobody enabled
	var unfinished, noneEnabled []string
	for g := 0; g < n; g++ {
		unfinished = append(unfinished, fmt.Sprintf("(and %s (< %s %d))", started(g), p(g), len(seq[g])))
		noneEnabled = append(noneEnabled, fmt.Sprintf("(not (and %s %s))", started(g), enabled(g)))
	}
	q1 := base + "(assert (or " + strings.Join(unfinished, " ") + "))\n(assert (and " + strings.Join(noneEnabled, " ") + "))\n"
	r1, w1, err := runCutQuery(s, q1, n)
	if err != nil {
		return rep, err
	}
	rep.DeadlockQuery = r1
	if r1 == "sat" {
		rep.Witness = "deadlock cut: " + w1
	}
	rep.EarlyReturnQuery = "not-checked"
	if marker >= 0 {
		var others []string
		for g := 1; g < n; g++ {
			others = append(others, fmt.Sprintf("(and %s (< %s %d))", started(g), p(g), len(seq[g])))
			others = append(others, fmt.Sprintf("(not %s)", started(g)))
		}
		if len(others) > 0 {
			// goroutines never started at the cut but started later count as unfinished only if they have events
			var unfinishedOthers []string
			for g := 1; g < n; g++ {
				// every synchronisation event of every other goroutine must have happened; only the goroutine's
				// own final return (after its last synchronisation, e.g. log output of the snapper stage) may be pending
				need := len(seq[g])
				if need > 0 && seq[g][need-1].Kind == "return" {
					need--
				}
				if need > 0 {
					unfinishedOthers = append(unfinishedOthers, fmt.Sprintf("(< %s %d)", p(g), need))
				}
			}
			q2 := base + fmt.Sprintf("(assert (> p0 %d))\n(assert (or %s))\n", marker, strings.Join(unfinishedOthers, " "))
			r2, w2, err := runCutQuery(s, q2, n)
			if err != nil {
				return rep, err
			}
			rep.EarlyReturnQuery = r2
			if r2 == "sat" && rep.Witness == "" {
				rep.Witness = "early-return cut: " + w2
			}
		}
	}
	return rep, nil
}

func runCutQuery(s *Solver, q string, n int) (string, string, error) {
	s.Push()
	defer s.Pop()
	for _, l := range strings.Split(q, "\n") {
		if l != "" {
			s.send(l)
		}
	}
	r, err := s.Check()
	if err != nil {
		return r, "", err
	}
	w := ""
	if r == "sat" {
		var names []string
		for g := 0; g < n; g++ {
			names = append(names, fmt.Sprintf("p%d", g))
		}
		lines, _ := s.roundTrip("(get-value (" + strings.Join(names, " ") + "))")
		w = strings.Join(lines, " ")
	}
	return r, w, nil
}
