package main

// Persistent SMT solver process (z3 -in / cvc5 --incremental) with marker-synchronised I/O.

import (
	"bufio"
	"fmt"
	"io"
	"math"
	"math/big"
	"os"
	"os/exec"
	"strconv"
	"strings"
	"time"
)

type Solver struct {
	kind    string // z3-new | z3 | cvc5
	cmd     *exec.Cmd
	in      io.WriteCloser
	out     *bufio.Reader
	log     io.Writer
	Queries int
	Time    time.Duration
	timeout int // ms
	dead    bool
}

func NewSolver(kind string, timeoutMs int, logw io.Writer) (*Solver, error) {
	var cmd *exec.Cmd
	switch kind {
	case "z3-new", "z3":
		cmd = exec.Command(kind, "-in", "-smt2")
	case "cvc5":
		cmd = exec.Command("cvc5", "--incremental", "--lang=smt2", "--produce-models", fmt.Sprintf("--tlimit-per=%d", timeoutMs))
	default:
		return nil, fmt.Errorf("unknown solver %q", kind)
	}
	in, err := cmd.StdinPipe()
	if err != nil {
		return nil, err
	}
	outp, err := cmd.StdoutPipe()
	if err != nil {
		return nil, err
	}
	cmd.Stderr = os.Stderr
	if err := cmd.Start(); err != nil {
		return nil, err
	}
	s := &Solver{kind: kind, cmd: cmd, in: in, out: bufio.NewReaderSize(outp, 1<<20), log: logw, timeout: timeoutMs}
	if kind != "cvc5" {
		s.send(fmt.Sprintf("(set-option :timeout %d)", timeoutMs))
		s.send("(set-option :model.completion true)")
	} else {
		s.send("(set-logic ALL)")
	}
	return s, nil
}

func (s *Solver) Close() {
	if s == nil || s.dead {
		return
	}
	s.dead = true
	s.in.Close()
	done := make(chan struct{})
	go func() { s.cmd.Wait(); close(done) }()
	select {
	case <-done:
	case <-time.After(2 * time.Second):
		s.cmd.Process.Kill()
	}
}

func (s *Solver) send(line string) {
	if s.log != nil {
		fmt.Fprintln(s.log, line)
	}
	io.WriteString(s.in, line)
	io.WriteString(s.in, "\n")
}

const marker = "<<gosmt-done>>"

// roundTrip sends the commands and returns the output lines up to the marker.
func (s *Solver) roundTrip(cmds ...string) ([]string, error) {
	for _, c := range cmds {
		s.send(c)
	}
	s.send(`(echo "` + marker + `")`)
	var lines []string
	for {
		l, err := s.out.ReadString('\n')
		if err != nil {
			s.dead = true
			return lines, fmt.Errorf("solver died: %v", err)
		}
		l = strings.TrimRight(l, "\r\n")
		if strings.Contains(l, marker) {
			break
		}
		if s.log != nil {
			fmt.Fprintln(s.log, "; -> "+l)
		}
		lines = append(lines, l)
	}
	for _, l := range lines {
		if strings.Contains(l, "(error") {
			return lines, fmt.Errorf("solver error: %s", l)
		}
	}
	return lines, nil
}

func (s *Solver) Push() { s.send("(push 1)") }
func (s *Solver) Pop()  { s.send("(pop 1)") }
func (s *Solver) Declare(name string, srt Sort, w int) {
	s.send(fmt.Sprintf("(declare-const %s %s)", name, sortStr(srt, w)))
}
func (s *Solver) Assert(t *Term) { s.send("(assert " + SMT(t) + ")") }

// Check returns "sat", "unsat" or "unknown" (timeouts and solver errors are "unknown").
func (s *Solver) Check() (string, error) {
	t0 := time.Now()
	s.Queries++
	lines, err := s.roundTrip("(check-sat)")
	s.Time += time.Since(t0)
	if err != nil {
		return "unknown", err
	}
	for _, l := range lines {
		switch strings.TrimSpace(l) {
		case "sat", "unsat", "unknown":
			return strings.TrimSpace(l), nil
		}
	}
	return "unknown", fmt.Errorf("no check-sat answer: %v", lines)
}

// CheckWith asserts extra under a push, checks and pops.
func (s *Solver) CheckWith(extra *Term) (string, Model, error) {
	return s.CheckWithVars(extra, nil)
}

func (s *Solver) CheckWithVars(extra *Term, vars []*Term) (string, Model, error) {
	s.Push()
	s.Assert(extra)
	r, err := s.Check()
	var m Model
	if r == "sat" && len(vars) > 0 {
		m, err = s.GetModel(vars)
		if err != nil {
			r = "unknown"
		}
	}
	s.Pop()
	return r, m, err
}

func (s *Solver) GetModel(vars []*Term) (Model, error) {
	if len(vars) == 0 {
		return Model{}, nil
	}
	var sb strings.Builder
	sb.WriteString("(get-value (")
	for _, v := range vars {
		sb.WriteString(v.Name)
		sb.WriteByte(' ')
	}
	sb.WriteString("))")
	lines, err := s.roundTrip(sb.String())
	if err != nil {
		return nil, err
	}
	txt := strings.Join(lines, " ")
	sx, _, err := parseSexp(txt, 0)
	if err != nil {
		return nil, fmt.Errorf("get-value parse: %v in %q", err, txt)
	}
	m := Model{}
	byName := map[string]*Term{}
	for _, v := range vars {
		byName[v.Name] = v
	}
	for _, pair := range sx.list {
		if len(pair.list) != 2 || pair.list[0].atom == "" {
			return nil, fmt.Errorf("get-value: bad pair in %q", txt)
		}
		v := byName[pair.list[0].atom]
		if v == nil {
			continue
		}
		mv, err := sexpToVal(pair.list[1], v.Sort)
		if err != nil {
			return nil, fmt.Errorf("get-value %s: %v", v.Name, err)
		}
		m[v.Name] = mv
	}
	return m, nil
}

type sexp struct {
	atom string
	list []*sexp
}

func parseSexp(s string, i int) (*sexp, int, error) {
	for i < len(s) && (s[i] == ' ' || s[i] == '\n' || s[i] == '\t') {
		i++
	}
	if i >= len(s) {
		return nil, i, fmt.Errorf("eof")
	}
	if s[i] == '(' {
		i++
		n := &sexp{list: []*sexp{}}
		for {
			for i < len(s) && (s[i] == ' ' || s[i] == '\n' || s[i] == '\t') {
				i++
			}
			if i >= len(s) {
				return nil, i, fmt.Errorf("unbalanced")
			}
			if s[i] == ')' {
				return n, i + 1, nil
			}
			c, j, err := parseSexp(s, i)
			if err != nil {
				return nil, j, err
			}
			n.list = append(n.list, c)
			i = j
		}
	}
	j := i
	for j < len(s) && s[j] != ' ' && s[j] != '(' && s[j] != ')' && s[j] != '\n' && s[j] != '\t' {
		j++
	}
	return &sexp{atom: s[i:j]}, j, nil
}

func sexpToVal(x *sexp, srt Sort) (MVal, error) {
	switch srt {
	case SBool:
		return MVal{B: x.atom == "true"}, nil
	case SInt:
		v, err := sexpInt(x)
		return MVal{I: v}, err
	case SBV:
		a := x.atom
		if strings.HasPrefix(a, "#x") {
			v, ok := new(big.Int).SetString(a[2:], 16)
			if !ok {
				return MVal{}, fmt.Errorf("bad bv %q", a)
			}
			return MVal{I: v}, nil
		}
		if strings.HasPrefix(a, "#b") {
			v, ok := new(big.Int).SetString(a[2:], 2)
			if !ok {
				return MVal{}, fmt.Errorf("bad bv %q", a)
			}
			return MVal{I: v}, nil
		}
		if len(x.list) == 3 && x.list[0].atom == "_" && strings.HasPrefix(x.list[1].atom, "bv") {
			v, ok := new(big.Int).SetString(x.list[1].atom[2:], 10)
			if !ok {
				return MVal{}, fmt.Errorf("bad bv")
			}
			return MVal{I: v}, nil
		}
		return MVal{}, fmt.Errorf("bad bv value")
	case SFP:
		// (fp #b0 #b... #x...) | (_ +zero 11 53) | (_ NaN 11 53) | (_ +oo 11 53)
		if len(x.list) == 4 && x.list[0].atom == "fp" {
			bits := new(big.Int)
			for _, p := range x.list[1:] {
				pv, err := sexpToVal(p, SBV)
				if err != nil {
					return MVal{}, err
				}
				w := 0
				if strings.HasPrefix(p.atom, "#x") {
					w = 4 * (len(p.atom) - 2)
				} else {
					w = len(p.atom) - 2
				}
				bits.Lsh(bits, uint(w))
				bits.Or(bits, pv.I)
			}
			return MVal{F: math.Float64frombits(bits.Uint64())}, nil
		}
		if len(x.list) == 4 && x.list[0].atom == "_" {
			switch x.list[1].atom {
			case "+zero":
				return MVal{F: 0}, nil
			case "-zero":
				return MVal{F: math.Copysign(0, -1)}, nil
			case "NaN":
				return MVal{F: math.NaN()}, nil
			case "+oo":
				return MVal{F: math.Inf(1)}, nil
			case "-oo":
				return MVal{F: math.Inf(-1)}, nil
			}
		}
		return MVal{}, fmt.Errorf("bad fp value")
	}
	return MVal{}, fmt.Errorf("bad sort")
}

func sexpInt(x *sexp) (*big.Int, error) {
	if x.atom != "" {
		v, ok := new(big.Int).SetString(x.atom, 10)
		if !ok {
			if f, err := strconv.ParseFloat(x.atom, 64); err == nil && f == math.Trunc(f) {
				bf := new(big.Float).SetFloat64(f)
				v, _ = bf.Int(nil)
				return v, nil
			}
			return nil, fmt.Errorf("bad int %q", x.atom)
		}
		return v, nil
	}
	if len(x.list) == 2 && x.list[0].atom == "-" {
		v, err := sexpInt(x.list[1])
		if err != nil {
			return nil, err
		}
		return v.Neg(v), nil
	}
	return nil, fmt.Errorf("bad int sexp")
}
