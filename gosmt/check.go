package main

// Orchestration of property checks: obligations -> symbolic exploration -> native replay -> evidence / verdict.

import (
	"bytes"
	"crypto/sha256"
	"encoding/json"
	"flag"
	"fmt"
	"os"
	"os/exec"
	"path/filepath"
	"regexp"
	"runtime"
	"sort"
	"strconv"
	"strings"
	"sync"
	"time"
)

type Obligation struct {
	Harness        string   // harness function name
	Pkg            string   // package path relative to the module
	Mode           string   // math | bits
	Tiers          string   // "quick", "thorough" or "both"
	Internal       bool     // uses unexported identifiers of the repo: skipped (reported) if it no longer type-checks
	Covers         []string // reachability witnesses that must be hit (vacuity guard)
	TimeoutMs      int
	Budget         int
	MaxPaths       int
	DeadlineSec    int // time box for this obligation (exploration reported as truncated when hit)
	MapOrder       string
	MapOrderBudget int
	Solver         string
	Desc           string
	Bounds         string
	// Subst: callee -> contract function substitutions ("pkg.Func" -> "pkg.Contract"), each justified by another
	// obligation of the same property that proves callee == contract on the current tree
	Subst map[string]string
	// SymMaps: keep symbolic map keys symbolic (see Program.SymMaps)
	SymMaps bool
	// Cuts: analyse the synchronisation events of every path with the SMT cut queries (C11)
	Cuts bool
	// AllowPanic: unrecovered panics on a path are part of normal behaviour for this harness (not reported)
	AllowPanic bool
}

type PropSpec struct {
	ID          string
	Obligations []Obligation
	Assumptions []string
	Outside     []string // what lies outside the bounds
	NeedsGen    bool     // needs the natively generated tile-matrix-set data
	Exhaustive  bool     // the obligations cover their whole (finite) input domain without any bound
	Regression  []string // replay files (relative to /verif) of repaired defects: must pass natively on every run
	Native      func(c *checkCtx) []NativeResult
}

type NativeResult struct {
	Name   string `json:"name"`
	OK     bool   `json:"ok"`
	Detail string `json:"detail"`
}

type KnownFinding struct {
	Property string `json:"property"`
	Status   string `json:"status"` // open | fixed
	Assert   string `json:"assert"` // assertion id that delimits the class
	Commit   string `json:"commit,omitempty"`
	What     string `json:"what"`
}

type checkCtx struct {
	repo, verif, hdir, work string
	tier                    string
	seed                    int
	workers                 int
	overlay                 map[string][]byte
	skippedFiles            []string
}

type oblResult struct {
	Obl     Obligation
	Res     *RunResult
	Funcs   []string
	Skipped string
	Err     string
	Subst   []string
	Cuts    *cutSummary
}

type cutBad struct {
	Report *CutReport        `json:"report"`
	Inputs map[string]string `json:"inputs"`
}

type cutSummary struct {
	Paths         int      `json:"paths_analysed"`
	Queries       int      `json:"cut_queries"`
	DeadlockFree  int      `json:"paths_deadlock_free_for_all_schedules"`
	NoEarlyReturn int      `json:"paths_no_early_return_for_all_schedules"`
	MaxGoroutines int      `json:"max_goroutines"`
	MaxEvents     int      `json:"max_events"`
	Errors        int      `json:"errors"`
	Bad           []cutBad `json:"suspect,omitempty"`
}

var harnessFileErr = regexp.MustCompile(`(/[^:\s]*zz_verif[^:\s]*\.go):\d+`)

// loadWithFallback loads a package; harness files of the internal tier that no longer type-check are dropped.
func (c *checkCtx) load(pkg string) (*Program, error) {
	ov := map[string][]byte{}
	for k, v := range c.overlay {
		ov[k] = v
	}
	for attempt := 0; attempt < 8; attempt++ {
		p, err := LoadProgram(c.repo, []string{"./" + pkg}, ov)
		if err == nil {
			return p, nil
		}
		dropped := false
		for _, m := range harnessFileErr.FindAllStringSubmatch(err.Error(), -1) {
			f := m[1]
			if _, ok := ov[f]; ok && strings.Contains(filepath.Base(f), "_int_") {
				delete(ov, f)
				c.skippedFiles = append(c.skippedFiles, f+": "+firstLine(err.Error(), f))
				dropped = true
			}
		}
		if !dropped {
			return nil, err
		}
	}
	return nil, fmt.Errorf("could not load %s", pkg)
}

func firstLine(all, file string) string {
	for _, l := range strings.Split(all, "\n") {
		if strings.Contains(l, file) {
			return l
		}
	}
	return ""
}

func tierMatch(o Obligation, tier string) bool {
	return o.Tiers == "" || o.Tiers == "both" || o.Tiers == tier
}

func cmdCheck(args []string) int {
	fs := flag.NewFlagSet("check", flag.ExitOnError)
	repo := fs.String("repo", "/repo", "")
	verif := fs.String("verif", "/verif", "")
	tier := fs.String("tier", os.Getenv("VERIF_TIER"), "quick|thorough")
	replay := fs.String("replay", "", "replay a counterexample file natively")
	only := fs.String("only", "", "run only harnesses whose name contains this")
	workers := fs.Int("workers", 0, "")
	noEvidence := fs.Bool("no-evidence", false, "")
	ovTimeout := fs.Int("timeout-ms", 0, "override per-query timeout")
	ovMaxPaths := fs.Int("maxpaths", 0, "override path limit")
	ovDeadline := fs.Int("deadline-sec", 0, "override the time box of every obligation")
	logsmt := fs.String("logsmt", "", "directory for solver transcripts")
	symReplay := fs.String("sym-replay", "", "run the harness of a replay file in the interpreter with concrete inputs")
	noIfConv := fs.Bool("no-ifconv", false, "disable if-conversion")
	verbose := fs.Bool("v", false, "verbose notes (if-conversion abort reasons)")
	shadow := fs.Bool("shadow", false, "validate every symbolic operation against concrete semantics under the path model")
	fs.Parse(args)
	if *replay != "" {
		return cmdReplay(*repo, *verif, *replay)
	}
	if fs.NArg() < 1 {
		fmt.Fprintln(os.Stderr, "usage: gosmt check <property> [--tier quick|thorough]")
		return 2
	}
	id := fs.Arg(0)
	// allow flags after the property id
	fs.Parse(fs.Args()[1:])
	if *tier == "" {
		*tier = "quick"
	}
	spec, ok := propSpecs()[id]
	if !ok {
		fmt.Fprintf(os.Stderr, "no check registered for %s\n", id)
		return 2
	}
	seed, _ := strconv.Atoi(os.Getenv("VERIF_SEED"))
	w := *workers
	if w == 0 {
		w = runtime.NumCPU()
		if w > 16 {
			w = 16
		}
	}
	work := filepath.Join(*verif, ".work", fmt.Sprintf("%s-%d", id, os.Getpid()))
	os.MkdirAll(work, 0o755)
	defer os.RemoveAll(work)
	c := &checkCtx{repo: *repo, verif: *verif, hdir: filepath.Join(*verif, "harness"), work: work, tier: *tier, seed: seed, workers: w}
	ov, err := overlayFor(c.repo, c.hdir)
	if err != nil {
		fmt.Fprintln(os.Stderr, "overlay:", err)
		return 2
	}
	c.overlay = ov
	t0 := time.Now()
	if spec.NeedsGen {
		if err := c.generate(); err != nil {
			fmt.Fprintln(os.Stderr, "generate:", err)
			fmt.Printf("CHECK-ERROR property=%s native data generation failed\n", id)
			return 2
		}
	} else {
		// harness packages that reference the generated data must not be loaded without it
		for k := range c.overlay {
			for dir := range genPackages {
				if strings.Contains(k, "/"+dir+"/") {
					delete(c.overlay, k)
				}
			}
		}
	}

	progs := map[string]*Program{}
	var results []oblResult
	// thorough: the whole check has a wall budget (VERIF_THOROUGH_BUDGET_MIN, default 100 minutes). The boxes of the
	// obligations still to run shrink to an equal share of what is left (never below 60 s); a shortened box is
	// reported like any other truncation.
	budgetMin, _ := strconv.Atoi(os.Getenv("VERIF_THOROUGH_BUDGET_MIN"))
	if budgetMin <= 0 {
		budgetMin = 100
	}
	selected := 0
	for _, o := range spec.Obligations {
		if tierMatch(o, *tier) && (*only == "" || strings.Contains(o.Harness, *only)) {
			selected++
		}
	}
	done := 0
	for _, o := range spec.Obligations {
		if !tierMatch(o, *tier) {
			continue
		}
		if *only != "" && !strings.Contains(o.Harness, *only) {
			continue
		}
		done++
		r := oblResult{Obl: o}
		p, ok := progs[o.Pkg]
		if !ok {
			p, err = c.load(o.Pkg)
			if err != nil {
				fmt.Fprintf(os.Stderr, "ERROR loading %s: %v\n", o.Pkg, err)
				fmt.Printf("CHECK-ERROR property=%s could not load package %s with harnesses\n", id, o.Pkg)
				return 2
			}
			progs[o.Pkg] = p
		}
		fn, ferr := p.Entry(repoModule+"/"+o.Pkg, o.Harness)
		if ferr != nil {
			if o.Internal {
				r.Skipped = "internal-tier harness not available: " + ferr.Error()
				results = append(results, r)
				fmt.Fprintf(os.Stderr, "SKIP %s (%s)\n", o.Harness, r.Skipped)
				continue
			}
			fmt.Printf("CHECK-ERROR property=%s harness %s missing: %v\n", id, o.Harness, ferr)
			return 2
		}
		p.Mode = ModeMath
		if o.Mode == "bits" {
			p.Mode = ModeBits
		}
		p.Budget = 2000000
		if o.Budget > 0 {
			p.Budget = o.Budget
		}
		p.MapOrder = mapOrderFor(o.MapOrder)
		p.SymMaps = o.SymMaps
		p.MapOrderBudget = o.MapOrderBudget
		if p.MapOrderBudget == 0 {
			p.MapOrderBudget = 1
		}
		r.Subst = p.SetSubst(o.Subst)
		p.NoIfConv = *noIfConv
		p.Shadow = *shadow
		p.Verbose = *verbose
		p.Concrete = nil
		if *symReplay != "" {
			var d replayDoc
			b, _ := os.ReadFile(*symReplay)
			json.Unmarshal(b, &d)
			if d.Harness != o.Harness {
				continue
			}
			p.Concrete = d.Inputs
		}
		opts := RunOpts{Workers: w, Solver: o.Solver, TimeoutMs: o.TimeoutMs, MaxPaths: o.MaxPaths}
		if opts.TimeoutMs == 0 {
			opts.TimeoutMs = 20000
			if *tier == "thorough" {
				opts.TimeoutMs = 60000
			}
		}
		if *ovTimeout > 0 {
			opts.TimeoutMs = *ovTimeout
		}
		if *ovMaxPaths > 0 {
			opts.MaxPaths = *ovMaxPaths
		}
		opts.LogSMT = *logsmt
		opts.Progress = true
		opts.Seed = seed
		switch {
		case *ovDeadline > 0:
			opts.Deadline = time.Duration(*ovDeadline) * time.Second
		case *tier == "quick":
			opts.Deadline = 15 * time.Minute // safety net: a quick obligation never runs longer (reported as truncated)
		default:
			// thorough: every obligation is time-boxed (10 min unless stated otherwise, never more than 20 min)
			d := o.DeadlineSec
			if d == 0 {
				d = 600
			}
			if d > 1200 {
				d = 1200
			}
			left := time.Duration(budgetMin)*time.Minute - time.Since(t0)
			if share := int(left.Seconds()) / (selected - done + 1); share < d {
				d = share
				if d < 60 {
					d = 60
				}
			}
			opts.Deadline = time.Duration(d) * time.Second
		}
		fmt.Fprintf(os.Stderr, "== %s/%s [%s] ...\n", o.Pkg, o.Harness, o.Mode)
		var onPath func(*Exec, PathResult)
		var cutMu sync.Mutex
		cutAgg := &cutSummary{}
		if o.Cuts {
			onPath = func(ex *Exec, pr PathResult) {
				if ex.sched == nil || len(ex.sched.events) == 0 {
					return
				}
				rep, cerr := analyseCuts(ex.sched.events, ex.solver)
				cutMu.Lock()
				defer cutMu.Unlock()
				cutAgg.Paths++
				if cerr != nil {
					cutAgg.Errors++
					return
				}
				cutAgg.Queries += 2
				if rep.Goroutines > cutAgg.MaxGoroutines {
					cutAgg.MaxGoroutines = rep.Goroutines
				}
				if rep.Events > cutAgg.MaxEvents {
					cutAgg.MaxEvents = rep.Events
				}
				bad := len(rep.KahnViolations) > 0 || rep.DeadlockQuery != "unsat" || (rep.EarlyReturnQuery != "unsat" && rep.EarlyReturnQuery != "not-checked")
				if rep.DeadlockQuery == "unsat" {
					cutAgg.DeadlockFree++
				}
				if rep.EarlyReturnQuery == "unsat" {
					cutAgg.NoEarlyReturn++
				}
				if bad && len(cutAgg.Bad) < 5 {
					cutAgg.Bad = append(cutAgg.Bad, cutBad{Report: rep, Inputs: ex.inputSnapshot(ex.model)})
				}
			}
		}
		res, xerr := Explore(p, fn, opts, onPath)
		r.Cuts = cutAgg
		if xerr != nil {
			r.Err = xerr.Error()
			fmt.Printf("CHECK-ERROR property=%s harness %s: %v\n", id, o.Harness, xerr)
			return 2
		}
		r.Res = res
		r.Funcs = p.RepoFunctions(fn)
		fmt.Fprintf(os.Stderr, "   paths=%d %v queries=%d solver=%.1fs wall=%.1fs ifconv=%d aborted=%d maxdecisions=%d steps=%d\n", res.Paths, res.ByStatus, res.Queries, res.SolverSec, res.WallSec, res.IfConv, res.IfConvAbort, res.MaxDecisions, res.Steps)
		results = append(results, r)
	}

	var native []NativeResult
	if spec.Native != nil {
		native = spec.Native(c)
	}
	for _, rf := range spec.Regression {
		if *only != "" {
			break
		}
		path := filepath.Join(*verif, rf)
		b, err := os.ReadFile(path)
		var d replayDoc
		if err != nil || json.Unmarshal(b, &d) != nil {
			native = append(native, NativeResult{Name: "regression replay " + rf, OK: true, Detail: "file unreadable: skipped"})
			continue
		}
		status, out := c.runReplay(d.Package, d.Harness, path)
		switch status {
		case "pass":
			native = append(native, NativeResult{Name: "regression replay " + rf, OK: true, Detail: "passes natively"})
		case "assert-failed", "panic", "timeout":
			native = append(native, NativeResult{Name: "regression replay " + rf, OK: false, Detail: path})
			fmt.Fprintf(os.Stderr, "   recorded counterexample %s fails again: %s\n", rf, strings.TrimSpace(out))
		default:
			native = append(native, NativeResult{Name: "regression replay " + rf, OK: true, Detail: "could not be replayed (" + status + "): " + tail(out, 3)})
			fmt.Fprintf(os.Stderr, "   WARNING regression replay %s: %s\n%s\n", rf, status, out)
		}
	}

	// ---- verdicts
	known := loadKnown(*verif)
	violations := 0
	vacuous := 0
	inconclusive := 0
	replays := 0
	var lines []string
	var samples []any
	states, transitions := 0, 0
	totalObl, discharged := 0, 0
	var solverSec float64
	var funcsAll = map[string]bool{}
	var oblEvidence []map[string]any
	var notes []string
	for _, r := range results {
		ev := map[string]any{"harness": r.Obl.Harness, "package": r.Obl.Pkg, "mode": r.Obl.Mode, "description": r.Obl.Desc, "bounds": r.Obl.Bounds, "internal_tier": r.Obl.Internal}
		if r.Skipped != "" {
			ev["skipped"] = r.Skipped
			oblEvidence = append(oblEvidence, ev)
			continue
		}
		res := r.Res
		states += res.Paths
		transitions += res.Queries
		solverSec += res.SolverSec
		for _, f := range r.Funcs {
			funcsAll[f] = true
		}
		ev["paths"] = res.Paths
		ev["paths_by_status"] = res.ByStatus
		ev["queries"] = res.Queries
		ev["solver_s"] = res.SolverSec
		ev["wall_s"] = res.WallSec
		ev["instructions_interpreted"] = res.Steps
		ev["wraps_emitted"] = res.Wraps
		ev["covers"] = res.Covers
		ev["functions_encoded"] = r.Funcs
		ev["truncated"] = res.Truncated
		if len(r.Subst) > 0 {
			ev["contract_substitutions"] = r.Subst
		}
		if len(res.Notes) > 0 {
			ev["notes"] = res.Notes
		}
		if len(res.Problems) > 0 {
			ev["problems"] = res.Problems
		}
		asserts := []map[string]any{}
		ids := make([]string, 0, len(res.Asserts))
		for k := range res.Asserts {
			ids = append(ids, k)
		}
		sort.Strings(ids)
		for _, aid := range ids {
			a := res.Asserts[aid]
			totalObl++
			am := map[string]any{"id": aid, "discharged_on_paths": a.Discharged, "violated_on_paths": a.Violated, "inconclusive_on_paths": a.Inconclusive}
			if a.Violated == 0 && a.Inconclusive == 0 {
				discharged++
			}
			if a.Inconclusive > 0 {
				inconclusive++
				am["inconclusive_detail"] = a.Detail
			}
			if a.Violated > 0 {
				rp := c.writeReplay(id, r.Obl, aid, a.Witness)
				status, out := c.runReplay(r.Obl.Pkg, r.Obl.Harness, rp)
				replays++
				am["replay_file"] = rp
				am["replay_status"] = status
				reproduced := status == "assert-failed" && strings.Contains(out, aid)
				if reproduced {
					if kf := matchKnown(known, id, aid); kf != nil {
						lines = append(lines, fmt.Sprintf("KNOWN-FINDING: property=%s %s (assert %s, replay=%s)", id, kf.What, aid, rp))
						am["known_finding"] = kf.What
					} else {
						violations++
						lines = append(lines, fmt.Sprintf("VIOLATION property=%s replay=%s", id, rp))
						fmt.Fprintf(os.Stderr, "   assertion %s violated; witness %v\n", aid, a.Witness)
					}
				} else {
					inconclusive++
					am["replay_mismatch"] = strings.TrimSpace(out)
					notes = append(notes, fmt.Sprintf("counterexample for %s did not reproduce natively (status %s): encoding problem, obligation counted as inconclusive", aid, status))
					fmt.Fprintf(os.Stderr, "   WARNING: counterexample for %s did not reproduce natively (%s)\n%s\n", aid, status, out)
				}
			}
			asserts = append(asserts, am)
		}
		ev["assertions"] = asserts
		if r.Obl.Cuts && r.Cuts != nil {
			ev["schedule_cut_analysis"] = r.Cuts
			transitions += r.Cuts.Queries
			totalObl += 2
			if r.Cuts.Errors == 0 && len(r.Cuts.Bad) == 0 && r.Cuts.Paths > 0 {
				discharged += 2
			}
			for _, b := range r.Cuts.Bad {
				aid := r.Obl.Harness + ".schedule-cut"
				rp := c.writeReplay(id, r.Obl, aid, b.Inputs)
				confirmed := false
				for try := 0; try < 3 && !confirmed; try++ {
					status, _ := c.runReplay(r.Obl.Pkg, r.Obl.Harness, rp)
					replays++
					confirmed = status == "assert-failed" || status == "panic" || status == "timeout"
				}
				desc := fmt.Sprintf("deadlock query %s, early-return query %s, Kahn premises %v, %s", b.Report.DeadlockQuery, b.Report.EarlyReturnQuery, b.Report.KahnViolations, b.Report.Witness)
				if confirmed {
					violations++
					lines = append(lines, fmt.Sprintf("VIOLATION property=%s replay=%s", id, rp))
					fmt.Fprintf(os.Stderr, "   schedule analysis: %s (confirmed by native replay)\n", desc)
				} else {
					inconclusive++
					notes = append(notes, "schedule analysis found a suspect cut that native replay did not confirm: "+desc)
					fmt.Fprintf(os.Stderr, "   SUSPECT schedule analysis: %s (not confirmed natively)\n", desc)
				}
			}
		}
		// panics / budget / deadlock
		if !r.Obl.AllowPanic {
			// a deadlock found under the interpreter's canonical schedule depends natively on the Go scheduler's choices
			// (e.g. which goroutine starts first): every stored witness (up to 20) is tried until one reproduces
			confirmedDeadlock, unconfirmed := false, 0
			for _, pi := range res.Panics {
				if pi.Status == "deadlock" {
					if confirmedDeadlock {
						continue
					}
				} else if unconfirmed >= 3 {
					continue
				}
				aid := r.Obl.Harness + "." + pi.Status
				totalObl++
				rp := c.writeReplay(id, r.Obl, aid, pi.Inputs)
				status, out := c.runReplay(r.Obl.Pkg, r.Obl.Harness, rp)
				replays++
				if status == "panic" || status == "timeout" {
					if pi.Status == "deadlock" {
						confirmedDeadlock = true
					} else {
						unconfirmed++ // bounds the number of reported panic witnesses as before
					}
					if kf := matchKnown(known, id, aid); kf != nil {
						lines = append(lines, fmt.Sprintf("KNOWN-FINDING: property=%s %s (replay=%s)", id, kf.What, rp))
					} else {
						violations++
						lines = append(lines, fmt.Sprintf("VIOLATION property=%s replay=%s", id, rp))
						fmt.Fprintf(os.Stderr, "   path ended in %s: %s; witness %v\n", pi.Status, pi.Detail, pi.Inputs)
					}
				} else {
					if pi.Status != "deadlock" {
						unconfirmed++
					}
					inconclusive++
					notes = append(notes, fmt.Sprintf("%s on a path of %s (%s) did not reproduce natively (status %s)", pi.Status, r.Obl.Harness, pi.Detail, status))
					fmt.Fprintf(os.Stderr, "   WARNING: %s in %s did not reproduce natively (%s): %s\n%s\n", pi.Status, r.Obl.Harness, status, pi.Detail, out)
				}
			}
		}
		for _, cv := range r.Obl.Covers {
			if res.Covers[cv] == 0 {
				vacuous++
				lines = append(lines, fmt.Sprintf("VACUOUS harness=%s cover=%s", r.Obl.Harness, cv))
			}
		}
		if *verbose {
			for _, n := range res.Notes {
				fmt.Fprintf(os.Stderr, "   NOTE %s\n", n)
			}
		}
		if res.ByStatus["unsupported"] > 0 || res.ByStatus["inconclusive"] > 0 {
			inconclusive += res.ByStatus["unsupported"] + res.ByStatus["inconclusive"]
			for _, pr := range res.Problems {
				fmt.Fprintf(os.Stderr, "   PROBLEM %s\n", pr)
			}
			for _, n := range res.Notes {
				fmt.Fprintf(os.Stderr, "   NOTE %s\n", n)
			}
		}
		if res.Truncated {
			notes = append(notes, r.Obl.Harness+": exploration truncated (path/time limit): coverage is partial")
		}
		for _, s := range res.SampleInputs {
			if len(samples) < 12 {
				samples = append(samples, map[string]any{"harness": r.Obl.Harness, "path_witness_inputs": s})
			}
		}
		if len(res.SampleInputs) == 0 && len(samples) < 12 {
			samples = append(samples, map[string]any{"harness": r.Obl.Harness, "obligation": r.Obl.Desc})
		}
		oblEvidence = append(oblEvidence, ev)
	}
	for _, n := range native {
		totalObl++
		if n.OK {
			discharged++
		} else {
			violations++
			lines = append(lines, fmt.Sprintf("VIOLATION property=%s replay=%s", id, n.Detail))
		}
	}
	for _, l := range lines {
		fmt.Println(l)
	}
	wall := time.Since(t0).Seconds()
	if !*noEvidence {
		var fl []string
		for f := range funcsAll {
			fl = append(fl, f)
		}
		sort.Strings(fl)
		if len(samples) == 0 {
			samples = append(samples, map[string]any{"note": "no obligation ran"})
		}
		cov := map[string]any{
			"states": states, "transitions": transitions, "traces_validated_against_impl": replays,
			"samples":     samples,
			"obligations": totalObl, "discharged": discharged, "inconclusive": inconclusive,
			"exhaustive":        false,
			"rule":              "states = feasible paths explored symbolically (each covers all inputs satisfying its path condition); transitions = SMT queries; traces_validated = native replays of solver models",
			"functions_encoded": fl, "solver_s": solverSec, "solver": "z3-new (Z3 5.1.0) via one persistent process per worker",
			"per_obligation": oblEvidence, "outside_bounds": spec.Outside,
			"skipped_harness_files": c.skippedFiles, "notes": notes, "native_checks": native,
			"encoding": "regenerated from /repo working tree on this run (go/packages + go/ssa with overlay harnesses)",
		}
		if spec.Assumptions == nil {
			spec.Assumptions = []string{}
		}
		evd := map[string]any{
			"property_id": id, "tier": *tier, "seed": seed, "level": "model_checking",
			"coverage": cov, "assumptions": spec.Assumptions, "wall_s": wall, "violations": violations,
		}
		os.MkdirAll(filepath.Join(*verif, "evidence"), 0o755)
		b, _ := json.MarshalIndent(evd, "", " ")
		os.WriteFile(filepath.Join(*verif, "evidence", id+".json"), b, 0o644)
	}
	fmt.Fprintf(os.Stderr, "%s %s: obligations=%d discharged=%d inconclusive=%d violations=%d vacuous=%d wall=%.1fs\n", id, *tier, totalObl, discharged, inconclusive, violations, vacuous, wall)
	if violations > 0 {
		return 1
	}
	if vacuous > 0 {
		return 2
	}
	return 0
}

func loadKnown(verif string) []KnownFinding {
	b, err := os.ReadFile(filepath.Join(verif, "known_findings.json"))
	if err != nil {
		return nil
	}
	var k struct {
		Findings []KnownFinding `json:"findings"`
	}
	if json.Unmarshal(b, &k) != nil {
		return nil
	}
	return k.Findings
}

func matchKnown(k []KnownFinding, prop, assert string) *KnownFinding {
	for i := range k {
		if k[i].Status == "open" && k[i].Property == prop && k[i].Assert == assert {
			return &k[i]
		}
	}
	return nil
}

type replayDoc struct {
	Property string            `json:"property"`
	Package  string            `json:"package"`
	Harness  string            `json:"harness"`
	Assert   string            `json:"assert"`
	Inputs   map[string]string `json:"inputs"`
}

func (c *checkCtx) writeReplay(prop string, o Obligation, assert string, inputs map[string]string) string {
	d := replayDoc{Property: prop, Package: o.Pkg, Harness: o.Harness, Assert: assert, Inputs: inputs}
	b, _ := json.MarshalIndent(d, "", " ")
	h := fmt.Sprintf("%x", sha256.Sum256(b))[:10]
	dir := filepath.Join(c.verif, "replays")
	os.MkdirAll(dir, 0o755)
	p := filepath.Join(dir, fmt.Sprintf("%s-%s-%s.json", prop, o.Harness, h))
	os.WriteFile(p, b, 0o644)
	return p
}

// runReplay compiles the harness natively (go test -overlay) and runs it on the replay vector.
func (c *checkCtx) runReplay(pkg, harness, replayPath string) (status string, out string) {
	return nativeReplay(c.repo, c.hdir, c.work, pkg, harness, replayPath)
}

func nativeReplay(repo, hdir, work, pkg, harness, replayPath string) (string, string) {
	os.MkdirAll(work, 0o755)
	repl := map[string]string{}
	pkgName := ""
	_, genErr := os.Stat(filepath.Join(work, "gen"))
	haveGen := genErr == nil
	for _, root := range []string{hdir, filepath.Join(work, "gen")} {
		filepath.Walk(root, func(path string, info os.FileInfo, err error) error {
			if err != nil || info.IsDir() || !strings.HasSuffix(path, ".go") {
				return nil
			}
			rel, _ := filepath.Rel(root, path)
			if _, needsGen := genPackages[filepath.Dir(rel)]; needsGen && !haveGen {
				return nil // harnesses of these packages need the generated tile-matrix-set data
			}
			repl[filepath.Join(repo, rel)] = path
			if filepath.Dir(rel) == pkg && pkgName == "" {
				b, _ := os.ReadFile(path)
				if m := regexp.MustCompile(`(?m)^package (\w+)`).FindSubmatch(b); m != nil {
					pkgName = string(m[1])
				}
			}
			return nil
		})
	}
	tmpl, err := os.ReadFile(filepath.Join(hdir, "replay_test.go.tmpl"))
	if err != nil {
		return "error", err.Error()
	}
	tf := filepath.Join(work, "zz_verif_replay_"+strings.ReplaceAll(pkg, "/", "_")+"_test.go")
	os.WriteFile(tf, bytes.ReplaceAll(tmpl, []byte("PKGNAME"), []byte(pkgName)), 0o644)
	repl[filepath.Join(repo, pkg, "zz_verif_replay_test.go")] = tf
	ovb, _ := json.Marshal(map[string]any{"Replace": repl})
	ovf := filepath.Join(work, "overlay.json")
	os.WriteFile(ovf, ovb, 0o644)
	cmd := exec.Command("timeout", "300", "go", "test", "-vet=off", "-count=1", "-timeout", "120s", "-overlay", ovf, "-run", "^TestVerifReplay$", "-v", "./"+pkg)
	cmd.Dir = repo
	cmd.Env = append(os.Environ(), "GOFLAGS=-mod=mod", "GOPROXY=off", "GOSUMDB=off", "GOTOOLCHAIN=local",
		"VERIF_REPLAY="+replayPath, "VERIF_HARNESS="+harness)
	b, err := cmd.CombinedOutput()
	outs := string(b)
	for _, l := range strings.Split(outs, "\n") {
		if strings.HasPrefix(l, "VERIF-REPLAY ") {
			f := strings.Fields(l)
			if len(f) >= 2 {
				return f[1], l + "\n" + grepLines(outs, "VERIF-REPLAY-PANIC") + "\n" + grepLines(outs, "VERIF-EMIT")
			}
		}
	}
	if strings.Contains(outs, "all goroutines are asleep") {
		return "panic", "fatal error: all goroutines are asleep - deadlock!"
	}
	if strings.Contains(outs, "panic: test timed out") {
		return "timeout", "native replay: test timed out"
	}
	if ee, ok := err.(*exec.ExitError); ok && ee.ExitCode() == 124 {
		return "timeout", "native replay timed out"
	}
	return "error", tail(outs, 30)
}

func grepLines(s, pat string) string {
	var o []string
	for _, l := range strings.Split(s, "\n") {
		if strings.Contains(l, pat) {
			o = append(o, l)
		}
	}
	return strings.Join(o, "\n")
}

func tail(s string, n int) string {
	ls := strings.Split(s, "\n")
	if len(ls) > n {
		ls = ls[len(ls)-n:]
	}
	return strings.Join(ls, "\n")
}

func cmdReplay(repo, verif, path string) int {
	if ap, err := filepath.Abs(path); err == nil {
		path = ap
	}
	b, err := os.ReadFile(path)
	if err != nil {
		fmt.Fprintln(os.Stderr, err)
		return 2
	}
	var d replayDoc
	if err := json.Unmarshal(b, &d); err != nil {
		fmt.Fprintln(os.Stderr, err)
		return 2
	}
	work := filepath.Join(verif, ".work", fmt.Sprintf("replay-%d", os.Getpid()))
	defer os.RemoveAll(work)
	gc := &checkCtx{repo: repo, verif: verif, hdir: filepath.Join(verif, "harness"), work: work, overlay: map[string][]byte{}}
	if err := gc.generate(); err != nil {
		fmt.Fprintln(os.Stderr, "generate:", err)
		return 2
	}
	status, out := nativeReplay(repo, filepath.Join(verif, "harness"), work, d.Package, d.Harness, path)
	fmt.Println(out)
	fmt.Printf("replay of %s (%s, assert %s): %s\n", path, d.Harness, d.Assert, status)
	if status == "assert-failed" || status == "panic" || status == "timeout" {
		fmt.Printf("VIOLATION property=%s replay=%s\n", d.Property, path)
		return 1
	}
	if status == "error" {
		return 2
	}
	return 0
}

func mapOrderFor(kind string) func(e *Exec, entries []*mapEntry) []*mapEntry {
	switch kind {
	case "":
		return nil
	case "reverse":
		return func(e *Exec, en []*mapEntry) []*mapEntry {
			r := make([]*mapEntry, len(en))
			for i := range en {
				r[len(en)-1-i] = en[i]
			}
			return r
		}
	}
	return nil
}

// packages that get a copy of the generated tile-matrix-set data file
var genPackages = map[string]string{"tms20": "tms20", "pointindex": "pointindex", "snap": "snap"}

// generate runs the native helper (go test -overlay in package tms20 of the current tree) that prints the embedded
// tile matrix sets as Go literals, and instantiates the result for every harness package.
func (c *checkCtx) generate() error {
	os.MkdirAll(c.work, 0o755)
	repl := map[string]string{}
	filepath.Walk(filepath.Join(c.hdir, "tms20"), func(path string, info os.FileInfo, err error) error {
		if err != nil || info.IsDir() || !strings.HasSuffix(path, "zz_verif_gen_test.go") {
			return nil
		}
		repl[filepath.Join(c.repo, "tms20", filepath.Base(path))] = path
		return nil
	})
	ovb, _ := json.Marshal(map[string]any{"Replace": repl})
	ovf := filepath.Join(c.work, "gen_overlay.json")
	os.WriteFile(ovf, ovb, 0o644)
	out := filepath.Join(c.work, "tmsdata.tmpl")
	cmd := exec.Command("timeout", "300", "go", "test", "-vet=off", "-count=1", "-overlay", ovf, "-run", "^TestVerifGenTMS$", "./tms20")
	cmd.Dir = c.repo
	cmd.Env = append(os.Environ(), "GOFLAGS=-mod=mod", "GOPROXY=off", "GOSUMDB=off", "GOTOOLCHAIN=local", "VERIF_GEN_OUT="+out)
	b, err := cmd.CombinedOutput()
	if err != nil {
		return fmt.Errorf("native generator failed: %v\n%s", err, tail(string(b), 20))
	}
	tmpl, err := os.ReadFile(out)
	if err != nil {
		return fmt.Errorf("native generator wrote nothing: %v\n%s", err, tail(string(b), 20))
	}
	for dir, name := range genPackages {
		src := string(tmpl)
		src = strings.ReplaceAll(src, "PKGNAME", name)
		if name == "tms20" {
			src = strings.ReplaceAll(src, "IMPORT\n", "")
			src = strings.ReplaceAll(src, "TMSQ.", "")
		} else {
			src = strings.ReplaceAll(src, "IMPORT\n", "import \"github.com/pdok/texel/tms20\"\n\n")
			src = strings.ReplaceAll(src, "TMSQ.", "tms20.")
		}
		d := filepath.Join(c.work, "gen", dir)
		os.MkdirAll(d, 0o755)
		fp := filepath.Join(d, "zz_verif_tmsdata.go")
		os.WriteFile(fp, []byte(src), 0o644)
		if c.overlay != nil {
			c.overlay[filepath.Join(c.repo, dir, "zz_verif_tmsdata.go")] = []byte(src)
		}
	}
	return nil
}
