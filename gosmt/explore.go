package main

import (
	"fmt"
	"io"
	"math/rand"
	"os"
	"sort"
	"sync"
	"time"

	"golang.org/x/tools/go/ssa"
)

type RunOpts struct {
	Workers   int
	Solver    string
	TimeoutMs int
	MaxPaths  int
	Deadline  time.Duration
	LogSMT    string // directory for solver transcripts (debug)
	Verbose   bool
	Progress  bool
	Seed      int
}

type AssertSummary struct {
	ID           string            `json:"id"`
	Discharged   int               `json:"discharged"`
	Violated     int               `json:"violated"`
	Inconclusive int               `json:"inconclusive"`
	Witness      map[string]string `json:"witness,omitempty"` // first violating input vector
	Detail       string            `json:"detail,omitempty"`
}

type RunResult struct {
	Harness      string                    `json:"harness"`
	Paths        int                       `json:"paths"`
	ByStatus     map[string]int            `json:"by_status"`
	Asserts      map[string]*AssertSummary `json:"asserts"`
	Covers       map[string]int            `json:"covers"`
	Queries      int                       `json:"queries"`
	SolverSec    float64                   `json:"solver_s"`
	WallSec      float64                   `json:"wall_s"`
	Steps        int64                     `json:"steps"`
	Wraps        int                       `json:"wraps_emitted"`
	InexactUse   int                       `json:"inexact_float_uses"`
	IfConv       int                       `json:"if_conversions"`
	IfConvAbort  int                       `json:"if_conversions_aborted"`
	Notes        []string                  `json:"notes,omitempty"`
	Panics       []PanicInfo               `json:"panics,omitempty"`
	Problems     []string                  `json:"problems,omitempty"` // unsupported / inconclusive / budget details
	Truncated    bool                      `json:"truncated"`          // MaxPaths or deadline hit: exploration incomplete
	MaxDecisions int                       `json:"max_decisions"`
	SampleInputs []map[string]string       `json:"sample_inputs,omitempty"`
	Events       [][]Event                 `json:"-"`
	Emits        []string                  `json:"-"`
}

type PanicInfo struct {
	Detail string            `json:"detail"`
	Inputs map[string]string `json:"inputs"`
	Status string            `json:"status"`
}

// Explore runs the harness over all feasible paths.
func Explore(p *Program, entry *ssa.Function, o RunOpts, onPath func(*Exec, PathResult)) (*RunResult, error) {
	t0 := time.Now()
	if o.Workers <= 0 {
		o.Workers = 8
	}
	if o.Solver == "" {
		o.Solver = "z3-new"
	}
	if o.TimeoutMs == 0 {
		o.TimeoutMs = 60000
	}
	res := &RunResult{Harness: entry.Name(), ByStatus: map[string]int{}, Asserts: map[string]*AssertSummary{}, Covers: map[string]int{}}
	var mu sync.Mutex
	queue := []PathItem{{Model: Model{}}}
	pending := 1 // items queued or running
	cond := sync.NewCond(&mu)
	noteSet := map[string]bool{}
	probSet := map[string]bool{}
	var firstErr error
	var wg sync.WaitGroup
	var solverTime time.Duration
	lastProgress := time.Now()
	var rng *rand.Rand
	if o.Deadline > 0 || o.MaxPaths > 0 {
		rng = rand.New(rand.NewSource(int64(o.Seed) + 1))
	}
	for w := 0; w < o.Workers; w++ {
		wg.Add(1)
		go func(w int) {
			defer wg.Done()
			var logw io.Writer
			if o.LogSMT != "" {
				f, err := os.Create(fmt.Sprintf("%s/%s.w%d.smt2", o.LogSMT, entry.Name(), w))
				if err == nil {
					defer f.Close()
					logw = f
				}
			}
			var s *Solver
			defer func() {
				if s != nil {
					mu.Lock()
					solverTime += s.Time
					mu.Unlock()
					s.Close()
				}
			}()
			for {
				mu.Lock()
				for len(queue) == 0 && pending > 0 {
					cond.Wait()
				}
				if pending == 0 || firstErr != nil {
					mu.Unlock()
					cond.Broadcast()
					return
				}
				// depth-first-ish: take the last item; time-boxed runs pick a random item every other time so that a
				// truncated exploration is spread over the input space instead of one corner of it
				idx := len(queue) - 1
				if rng != nil && len(queue) > 1 && rng.Intn(2) == 0 {
					idx = rng.Intn(len(queue))
				}
				item := queue[idx]
				queue[idx] = queue[len(queue)-1]
				queue = queue[:len(queue)-1]
				stop := res.Truncated
				mu.Unlock()
				if stop {
					mu.Lock()
					pending--
					mu.Unlock()
					cond.Broadcast()
					continue
				}
				if s == nil || s.dead {
					var err error
					s, err = NewSolver(o.Solver, o.TimeoutMs, logw)
					if err != nil {
						mu.Lock()
						firstErr = err
						pending = 0
						mu.Unlock()
						cond.Broadcast()
						return
					}
				}
				ex := NewExec(p, s, item)
				ex.verbose = o.Verbose
				pr, children := runPath(ex, entry)
				if onPath != nil {
					onPath(ex, pr)
				}
				mu.Lock()
				res.Paths++
				res.ByStatus[pr.Status]++
				res.Queries += pr.Queries
				res.Steps += int64(pr.Steps)
				res.Wraps += pr.Wraps
				res.InexactUse += pr.InexactUse
				res.IfConv += pr.IfConv
				res.IfConvAbort += pr.IfConvAborted
				if pr.Decisions > res.MaxDecisions {
					res.MaxDecisions = pr.Decisions
				}
				for _, n := range pr.Notes {
					if !noteSet[n] {
						noteSet[n] = true
						res.Notes = append(res.Notes, n)
					}
				}
				for _, c := range pr.Covers {
					res.Covers[c]++
				}
				for _, a := range pr.Asserts {
					as := res.Asserts[a.ID]
					if as == nil {
						as = &AssertSummary{ID: a.ID}
						res.Asserts[a.ID] = as
					}
					switch a.Status {
					case "discharged":
						as.Discharged++
					case "violated":
						as.Violated++
						if as.Witness == nil {
							as.Witness = a.Inputs
						}
					default:
						as.Inconclusive++
						if as.Detail == "" {
							as.Detail = a.Detail
						}
					}
				}
				switch pr.Status {
				case "panic", "budget", "deadlock":
					if len(res.Panics) < 20 {
						res.Panics = append(res.Panics, PanicInfo{Detail: pr.Detail, Inputs: pr.Inputs, Status: pr.Status})
					}
				case "unsupported", "inconclusive":
					k := pr.Status + ": " + pr.Detail
					if !probSet[k] {
						probSet[k] = true
						if len(res.Problems) < 30 {
							res.Problems = append(res.Problems, k)
						}
					}
				}
				if len(res.SampleInputs) < 5 && pr.Status == "ok" && len(ex.inputs) > 0 {
					res.SampleInputs = append(res.SampleInputs, ex.inputSnapshot(ex.model))
				}
				if len(pr.Emits) > 0 && len(res.Emits) < 64 {
					res.Emits = append(res.Emits, pr.Emits...)
				}
				if ex.sched != nil && len(res.Events) < 4 {
					res.Events = append(res.Events, ex.sched.events)
				}
				queue = append(queue, children...)
				pending += len(children) - 1
				if o.Progress && time.Since(lastProgress) > 15*time.Second {
					lastProgress = time.Now()
					fmt.Fprintf(os.Stderr, "   ... %d paths done, %d pending, %.0fs\n", res.Paths, pending, time.Since(t0).Seconds())
				}
				if (o.MaxPaths > 0 && res.Paths >= o.MaxPaths) || (o.Deadline > 0 && time.Since(t0) > o.Deadline) {
					if pending > 0 {
						res.Truncated = true
					}
				}
				mu.Unlock()
				cond.Broadcast()
			}
		}(w)
	}
	wg.Wait()
	if firstErr != nil {
		return nil, firstErr
	}
	res.SolverSec = solverTime.Seconds()
	res.WallSec = time.Since(t0).Seconds()
	sort.Strings(res.Notes)
	return res, nil
}

// runPath runs one path and converts interpreter crashes into an "unsupported" result instead of killing the run.
func runPath(ex *Exec, entry *ssa.Function) (pr PathResult, children []PathItem) {
	defer func() {
		if r := recover(); r != nil {
			ex.killAll()
			pr = PathResult{Status: "unsupported", Detail: fmt.Sprintf("interpreter error: %v", r)}
			children = ex.children
		}
	}()
	pr, children = ex.Run(entry)
	ex.killAll()
	return
}
