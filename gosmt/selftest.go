package main

import (
	"fmt"
	"os"
	"path/filepath"
	"strings"
)

// cmdSelftest checks that the solver back end answers and (translator validation) that the interpreter in
// concrete mode agrees with the natively compiled code on the repository's own test inputs.
func cmdSelftest(args []string) int {
	s, err := NewSolver("z3-new", 10000, nil)
	if err != nil {
		fmt.Fprintln(os.Stderr, "selftest: solver:", err)
		return 2
	}
	defer s.Close()
	tf := NewTF()
	x := tf.Var("x", SInt, 0, nil, nil)
	s.Declare("x", SInt, 0)
	s.Assert(tf.Cmp("<", tf.Mul(x, x), tf.Int64(0)))
	r, err := s.Check()
	if r != "unsat" {
		fmt.Fprintln(os.Stderr, "selftest: solver sanity failed:", r, err)
		return 2
	}
	if len(args) > 0 && args[0] == "--solver-only" {
		fmt.Println("selftest ok (solver only)")
		return 0
	}
	return translatorValidation("/repo", "/verif")
}

// tvHarnesses: harnesses without nondet inputs that emit a canonical rendering of what the real code computes.
var tvHarnesses = []struct{ pkg, harness string }{
	{"snap", "VerifTVSnap"},
}

func translatorValidation(repo, verif string) int {
	work := filepath.Join(verif, ".work", fmt.Sprintf("selftest-%d", os.Getpid()))
	defer os.RemoveAll(work)
	c := &checkCtx{repo: repo, verif: verif, hdir: filepath.Join(verif, "harness"), work: work}
	ov, err := overlayFor(repo, c.hdir)
	if err != nil {
		fmt.Fprintln(os.Stderr, err)
		return 2
	}
	c.overlay = ov
	if err := c.generate(); err != nil {
		fmt.Fprintln(os.Stderr, "selftest: generate:", err)
		return 2
	}
	empty := filepath.Join(work, "empty.json")
	os.WriteFile(empty, []byte(`{"inputs":{}}`), 0o644)
	bad := 0
	for _, tv := range tvHarnesses {
		p, err := c.load(tv.pkg)
		if err != nil {
			fmt.Fprintln(os.Stderr, "selftest: load:", err)
			return 2
		}
		fn, err := p.Entry(repoModule+"/"+tv.pkg, tv.harness)
		if err != nil {
			fmt.Fprintln(os.Stderr, "selftest:", err)
			return 2
		}
		p.Mode = ModeMath
		p.Budget = 200000000
		p.Concrete = map[string]string{}
		res, err := Explore(p, fn, RunOpts{Workers: 1, TimeoutMs: 10000}, nil)
		if err != nil {
			fmt.Fprintln(os.Stderr, "selftest: explore:", err)
			return 2
		}
		status, out := c.runReplay(tv.pkg, tv.harness, empty)
		native := ""
		for _, l := range strings.Split(out, "\n") {
			if strings.HasPrefix(l, "VERIF-EMIT ") {
				native = strings.TrimPrefix(l, "VERIF-EMIT ")
			}
		}
		interp := strings.Join(res.Emits, "")
		if status != "pass" || native == "" || len(res.Emits) == 0 || res.ByStatus["ok"] != 1 {
			fmt.Printf("translator validation %s: could not run (native status %s, interpreter %v %v)\n%s\n", tv.harness, status, res.ByStatus, res.Problems, tail(out, 10))
			bad++
			continue
		}
		if native != interp {
			fmt.Printf("translator validation %s: MISMATCH between interpreter and native build\n", tv.harness)
			na, ia := strings.Split(native, "|"), strings.Split(interp, "|")
			for i := 0; i < len(na) && i < len(ia); i++ {
				if na[i] != ia[i] {
					fmt.Printf("  case %d:\n   native: %s\n   interp: %s\n", i, na[i], ia[i])
					break
				}
			}
			bad++
			continue
		}
		fmt.Printf("translator validation %s: interpreter == native on %d cases (%d instructions interpreted)\n", tv.harness, strings.Count(native, "|"), res.Steps)
	}
	if bad > 0 {
		return 2
	}
	fmt.Println("selftest ok")
	return 0
}
