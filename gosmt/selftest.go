package main

import (
	"fmt"
	"os"
)

// cmdSelftest checks that the solver back end answers and (translator validation) that the interpreter in
// concrete mode agrees with the natively compiled code on the repository's own test inputs.
func cmdSelftest(args []string) int {
	s, err := NewSolver("z3-new", 10000, nil)
	if err != nil {
		fmt.Fprintln(os.Stderr, "selftest: solver:", err)
		return 2
	}
	defer s.Close()
	tf := NewTF()
	x := tf.Var("x", SInt, 0, nil, nil)
	s.Declare("x", SInt, 0)
	s.Assert(tf.Cmp("<", tf.Mul(x, x), tf.Int64(0)))
	r, err := s.Check()
	if r != "unsat" {
		fmt.Fprintln(os.Stderr, "selftest: solver sanity failed:", r, err)
		return 2
	}
	fmt.Println("selftest ok")
	return 0
}
