package main

import (
	"fmt"
	"go/token"
	"go/types"
	"math"
	"math/big"

	"golang.org/x/tools/go/ssa"
)

// ---------------------------------------------------------------- term helpers

func typeRange(t types.Type) (lo, hi *big.Int) {
	w := intWidth(t)
	if isSigned(t) {
		return new(big.Int).Neg(pow2(w - 1)), new(big.Int).Sub(pow2(w-1), bigOne)
	}
	return bigZero, new(big.Int).Sub(pow2(w), bigOne)
}

// intTerm lifts an integer value of static type t to a term in the current mode.
func (e *Exec) intTerm(v Value, t types.Type) *Term {
	switch v := v.(type) {
	case *Term:
		return v
	case uint64:
		if e.mode == ModeBits {
			return e.tf.BV(new(big.Int).SetUint64(v), intWidth(t))
		}
		if isSigned(t) {
			return e.tf.Int64(int64(v))
		}
		return e.tf.Int(new(big.Int).SetUint64(v))
	case bool:
		panic("intTerm of bool")
	}
	panic(fmt.Sprintf("intTerm: %T", v))
}

func (e *Exec) boolTerm(v Value) *Term {
	switch v := v.(type) {
	case *Term:
		return v
	case bool:
		return e.tf.Bool(v)
	}
	panic(fmt.Sprintf("boolTerm: %T", v))
}

// norm brings a mathematical integer term into the range of Go type t (explicit wrap unless intervals exclude it).
func (e *Exec) norm(x *Term, t types.Type) *Term {
	lo, hi := typeRange(t)
	if x.lo != nil && x.hi != nil && x.lo.Cmp(lo) >= 0 && x.hi.Cmp(hi) <= 0 {
		return x
	}
	e.res.Wraps++
	w := intWidth(t)
	var r *Term
	if x.lo != nil && x.hi != nil {
		// at most one wrap in either direction: express it with ite instead of mod
		span := pow2(w)
		if x.lo.Cmp(new(big.Int).Sub(lo, span)) >= 0 && x.hi.Cmp(new(big.Int).Add(hi, span)) <= 0 {
			f := e.tf
			r = x
			if x.hi.Cmp(hi) > 0 {
				r = f.Ite(f.Cmp("<", f.Int(hi), x), f.Sub(x, f.Int(span)), r)
			}
			if x.lo.Cmp(lo) < 0 {
				r = f.Ite(f.Cmp("<", x, f.Int(lo)), f.Add(x, f.Int(span)), r)
			}
			r.lo, r.hi = bmax2(r.lo, lo), bmin2(r.hi, hi)
			return r
		}
	}
	if isSigned(t) {
		half := e.tf.Int(pow2(w - 1))
		r = e.tf.Sub(e.tf.Mod(e.tf.Add(x, half), e.tf.Int(pow2(w))), half)
	} else {
		r = e.tf.Mod(x, e.tf.Int(pow2(w)))
	}
	return r
}

// truncDiv builds Go's truncated division on Int terms (y != 0 assumed).
func (e *Exec) truncDiv(x, y *Term) *Term {
	f := e.tf
	zero := f.Int64(0)
	if y.IsConst() {
		if y.IV.Sign() < 0 {
			return f.Neg(e.truncDiv(x, f.Neg(y)))
		}
		if x.lo != nil && x.lo.Sign() >= 0 {
			return f.Div(x, y)
		}
		if x.hi != nil && x.hi.Sign() <= 0 {
			return f.Neg(f.Div(f.Neg(x), y))
		}
		return f.Ite(f.Cmp("<=", zero, x), f.Div(x, y), f.Neg(f.Div(f.Neg(x), y)))
	}
	ax := f.Ite(f.Cmp("<", x, zero), f.Neg(x), x)
	ay := f.Ite(f.Cmp("<", y, zero), f.Neg(y), y)
	q := f.Div(ax, ay)
	neg := f.Not(f.Eq(f.Cmp("<", x, zero), f.Cmp("<", y, zero)))
	return f.Ite(neg, f.Neg(q), q)
}

// ---------------------------------------------------------------- Rat (math-mode floats)

func (e *Exec) ratOf(v Value) *Rat {
	switch v := v.(type) {
	case *Rat:
		return v
	case float64:
		if math.IsNaN(v) || math.IsInf(v, 0) {
			e.unsupported("NaN/Inf in rational float arithmetic")
		}
		r := new(big.Rat)
		r.SetFloat64(v)
		return &Rat{Num: e.tf.Int(r.Num()), Den: new(big.Int).Set(r.Denom())}
	}
	panic(fmt.Sprintf("ratOf: %T", v))
}

var two53 = pow2(53)

func isPow2(d *big.Int) bool {
	return d.Sign() > 0 && new(big.Int).And(d, new(big.Int).Sub(d, bigOne)).Sign() == 0
}

// ratFinish reduces by a common constant factor where obvious and checks representability.
func (e *Exec) ratFinish(num *Term, den *big.Int, inexact bool) Value {
	if den.Sign() < 0 {
		den = new(big.Int).Neg(den)
		num = e.tf.Neg(num)
	}
	if num.IsConst() {
		r := new(big.Rat).SetFrac(num.IV, den)
		if !inexact {
			f, exact := r.Float64()
			if exact {
				return f
			}
			inexact = true
			return &Rat{Num: e.tf.Int(r.Num()), Den: new(big.Int).Set(r.Denom()), Inexact: true}
		}
		return &Rat{Num: e.tf.Int(r.Num()), Den: new(big.Int).Set(r.Denom()), Inexact: true}
	}
	// cancel a constant factor of the numerator against the denominator
	if num.Op == "*" && num.Args[0].IsConst() && den.Cmp(bigOne) > 0 {
		g := new(big.Int).GCD(nil, nil, new(big.Int).Abs(num.Args[0].IV), den)
		if g.Cmp(bigOne) > 0 {
			num = e.tf.Mul(e.tf.Int(new(big.Int).Div(num.Args[0].IV, g)), num.Args[1])
			den = new(big.Int).Div(den, g)
		}
	}
	if !inexact {
		// representable if den is a power of two (<= 2^1074) and |num| < 2^53
		ok := isPow2(den) && den.BitLen() <= 1000 && num.lo != nil && num.hi != nil &&
			new(big.Int).Abs(num.lo).Cmp(two53) < 0 && new(big.Int).Abs(num.hi).Cmp(two53) < 0
		if !ok {
			inexact = true
			lo, hi := "?", "?"
			if num.lo != nil {
				lo = num.lo.String()
			}
			if num.hi != nil {
				hi = num.hi.String()
			}
			e.note(fmt.Sprintf("float operation whose exactness could not be established by intervals (value marked inexact) in %s: num in [%s,%s] den %s", e.curFn, lo, hi, den.String()))
		}
	}
	return &Rat{Num: num, Den: den, Inexact: inexact}
}

func (e *Exec) ratBin(op token.Token, x, y Value) Value {
	a, b := e.ratOf(x), e.ratOf(y)
	f := e.tf
	inex := a.Inexact || b.Inexact
	switch op {
	case token.ADD, token.SUB:
		l := new(big.Int).Mul(a.Den, b.Den)
		g := new(big.Int).GCD(nil, nil, a.Den, b.Den)
		l.Div(l, g)
		an := f.Mul(f.Int(new(big.Int).Div(l, a.Den)), a.Num)
		bn := f.Mul(f.Int(new(big.Int).Div(l, b.Den)), b.Num)
		if op == token.ADD {
			return e.ratFinish(f.Add(an, bn), l, inex)
		}
		return e.ratFinish(f.Sub(an, bn), l, inex)
	case token.MUL:
		if a.Scaled != nil || b.Scaled != nil {
			sc, other := a, y
			if a.Scaled == nil {
				sc, other = b, x
			}
			if c, ok := other.(float64); ok && c == 1e10 {
				e.note("float step of FromGeomOrd abstracted: harness quantifies over its integer result (verifFloatOfInt1e10)")
				return &Rat{Num: sc.Scaled, Den: big.NewInt(1)}
			}
			e.unsupported("abstract geom ordinate used other than in x * 1e10")
		}
		return e.ratFinish(f.Mul(a.Num, b.Num), new(big.Int).Mul(a.Den, b.Den), inex)
	case token.QUO:
		if !b.Num.IsConst() {
			e.unsupported("float division by a symbolic value in math mode")
		}
		if b.Num.IV.Sign() == 0 {
			e.unsupported("float division by zero in math mode")
		}
		// (a.Num/a.Den) / (bn/b.Den) = a.Num*b.Den / (a.Den*bn)
		num := f.Mul(a.Num, f.Int(b.Den))
		den := new(big.Int).Mul(a.Den, b.Num.IV)
		// divide out the odd part of the denominator when the numerator is syntactically a multiple of it
		if odd := oddPart(new(big.Int).Abs(den)); odd.Cmp(bigOne) > 0 {
			if q, ok := divExact(f, num, odd); ok {
				num = q
				den = new(big.Int).Div(den, odd)
			}
		}
		// reduce constant factors between b.Den and den
		g := new(big.Int).GCD(nil, nil, b.Den, new(big.Int).Abs(den))
		if g.Cmp(bigOne) > 0 {
			num = f.Mul(a.Num, f.Int(new(big.Int).Div(b.Den, g)))
			den = new(big.Int).Div(den, g)
		}
		return e.ratFinish(num, den, inex)
	}
	panic("ratBin op")
}

func (e *Exec) ratCmp(op token.Token, x, y Value) Value {
	a, b := e.ratOf(x), e.ratOf(y)
	if a.Inexact || b.Inexact {
		e.res.InexactUse++
		e.end("inconclusive", "comparison of a float whose rounding could not be excluded (math mode)")
	}
	f := e.tf
	l := f.Mul(a.Num, f.Int(b.Den))
	r := f.Mul(b.Num, f.Int(a.Den))
	var c *Term
	switch op {
	case token.EQL:
		c = f.Eq(l, r)
	case token.NEQ:
		c = f.Not(f.Eq(l, r))
	case token.LSS:
		c = f.Cmp("<", l, r)
	case token.LEQ:
		c = f.Cmp("<=", l, r)
	case token.GTR:
		c = f.Cmp("<", r, l)
	case token.GEQ:
		c = f.Cmp("<=", r, l)
	}
	if c.IsConst() {
		return c.BV_
	}
	return c
}

// ---------------------------------------------------------------- FP helpers (bits mode)

func (e *Exec) fpTerm(v Value) *Term {
	switch v := v.(type) {
	case *Term:
		return v
	case float64:
		return e.tf.FP(v)
	}
	panic(fmt.Sprintf("fpTerm: %T", v))
}

// ---------------------------------------------------------------- unop

func (e *Exec) unop(fr *frame, instr *ssa.UnOp, x Value) Value {
	switch instr.Op {
	case token.MUL: // load
		p := x.(*Value)
		if p == nil {
			panic(rtPanic("invalid memory address or nil pointer dereference"))
		}
		return copyVal(*p)
	case token.ARROW:
		return e.chanRecv(x.(*Chan), instr.CommaOk, instr.X.Type().Underlying().(*types.Chan).Elem())
	case token.NOT:
		switch x := x.(type) {
		case bool:
			return !x
		case *Term:
			return e.tf.Not(x)
		}
	case token.SUB:
		t := instr.X.Type()
		switch x := x.(type) {
		case uint64:
			return normConcrete(-x, t)
		case float64:
			return -x
		case *Rat:
			return &Rat{Num: e.tf.Neg(x.Num), Den: x.Den, Inexact: x.Inexact}
		case *Term:
			if x.Sort == SFP {
				return e.tf.FPUn("fp.neg", x)
			}
			if e.mode == ModeBits {
				return e.tf.BVNeg(x)
			}
			return e.norm(e.tf.Neg(x), t)
		}
	case token.XOR:
		t := instr.X.Type()
		switch x := x.(type) {
		case uint64:
			return normConcrete(^x, t)
		case *Term:
			if e.mode == ModeBits {
				return e.tf.BVNot(x)
			}
			// ^x = -x-1 (signed) ; 2^w-1-x (unsigned)
			if isSigned(t) {
				return e.norm(e.tf.Sub(e.tf.Neg(x), e.tf.Int64(1)), t)
			}
			_, hi := typeRange(t)
			return e.tf.Sub(e.tf.Int(hi), x)
		}
	}
	e.unsupported("unop %v on %T", instr.Op, x)
	return nil
}

// ---------------------------------------------------------------- binop

func (e *Exec) binop(op token.Token, tx, ty types.Type, x, y Value) Value {
	switch op {
	case token.EQL:
		return e.equal(tx, x, y)
	case token.NEQ:
		switch r := e.equal(tx, x, y).(type) {
		case bool:
			return !r
		case *Term:
			return e.tf.Not(r)
		}
	}
	switch {
	case isIntType(tx):
		if op == token.SHL || op == token.SHR {
			return e.shift(op, tx, ty, x, y)
		}
		cx, xc := x.(uint64)
		cy, yc := y.(uint64)
		if xc && yc {
			return e.concIntBin(op, tx, cx, cy)
		}
		return e.symIntBin(op, tx, x, y)
	case isFloatType(tx):
		return e.floatBin(op, x, y)
	case isStringType(tx):
		a, b := x.(string), y.(string)
		switch op {
		case token.ADD:
			return a + b
		case token.LSS:
			return a < b
		case token.LEQ:
			return a <= b
		case token.GTR:
			return a > b
		case token.GEQ:
			return a >= b
		}
	case isBoolType(tx):
		// only == and != reach here (handled above); & | on bools do not exist in Go
	}
	e.unsupported("binop %v on %v (%T, %T)", op, tx, x, y)
	return nil
}

func (e *Exec) concIntBin(op token.Token, t types.Type, x, y uint64) Value {
	signed := isSigned(t)
	var r uint64
	switch op {
	case token.ADD:
		r = x + y
	case token.SUB:
		r = x - y
	case token.MUL:
		r = x * y
	case token.QUO:
		if y == 0 {
			panic(rtPanic("integer divide by zero"))
		}
		if signed {
			if int64(y) == -1 {
				r = -x
			} else {
				r = uint64(int64(x) / int64(y))
			}
		} else {
			r = x / y
		}
	case token.REM:
		if y == 0 {
			panic(rtPanic("integer divide by zero"))
		}
		if signed {
			if int64(y) == -1 {
				r = 0
			} else {
				r = uint64(int64(x) % int64(y))
			}
		} else {
			r = x % y
		}
	case token.AND:
		r = x & y
	case token.OR:
		r = x | y
	case token.XOR:
		r = x ^ y
	case token.AND_NOT:
		r = x &^ y
	case token.LSS:
		if signed {
			return int64(x) < int64(y)
		}
		return x < y
	case token.LEQ:
		if signed {
			return int64(x) <= int64(y)
		}
		return x <= y
	case token.GTR:
		if signed {
			return int64(x) > int64(y)
		}
		return x > y
	case token.GEQ:
		if signed {
			return int64(x) >= int64(y)
		}
		return x >= y
	default:
		panic("concIntBin op " + op.String())
	}
	return normConcrete(r, t)
}

func (e *Exec) symIntBin(op token.Token, t types.Type, x, y Value) Value {
	f := e.tf
	X, Y := e.intTerm(x, t), e.intTerm(y, t)
	ret := func(c *Term) Value {
		if c.IsConst() {
			if c.Sort == SBool {
				return c.BV_
			}
			return e.termToConcrete(c, t)
		}
		return c
	}
	if e.mode == ModeBits {
		signed := isSigned(t)
		switch op {
		case token.ADD:
			return ret(f.BVBin("bvadd", X, Y))
		case token.SUB:
			return ret(f.BVBin("bvsub", X, Y))
		case token.MUL:
			return ret(f.BVBin("bvmul", X, Y))
		case token.QUO, token.REM:
			if e.decide(f.Eq(Y, f.BV(bigZero, Y.W))) {
				panic(rtPanic("integer divide by zero"))
			}
			name := map[bool]map[token.Token]string{true: {token.QUO: "bvsdiv", token.REM: "bvsrem"}, false: {token.QUO: "bvudiv", token.REM: "bvurem"}}[signed][op]
			return ret(f.BVBin(name, X, Y))
		case token.AND:
			return ret(f.BVBin("bvand", X, Y))
		case token.OR:
			return ret(f.BVBin("bvor", X, Y))
		case token.XOR:
			return ret(f.BVBin("bvxor", X, Y))
		case token.AND_NOT:
			return ret(f.BVBin("bvand", X, f.BVNot(Y)))
		case token.LSS:
			if signed {
				return ret(f.BVCmp("bvslt", X, Y))
			}
			return ret(f.BVCmp("bvult", X, Y))
		case token.LEQ:
			if signed {
				return ret(f.BVCmp("bvsle", X, Y))
			}
			return ret(f.BVCmp("bvule", X, Y))
		case token.GTR:
			if signed {
				return ret(f.BVCmp("bvslt", Y, X))
			}
			return ret(f.BVCmp("bvult", Y, X))
		case token.GEQ:
			if signed {
				return ret(f.BVCmp("bvsle", Y, X))
			}
			return ret(f.BVCmp("bvule", Y, X))
		}
		panic("symIntBin bits op " + op.String())
	}
	switch op {
	case token.ADD:
		return ret(e.norm(f.Add(X, Y), t))
	case token.SUB:
		return ret(e.norm(f.Sub(X, Y), t))
	case token.MUL:
		return ret(e.norm(f.Mul(X, Y), t))
	case token.QUO, token.REM:
		if e.decide(f.Eq(Y, f.Int64(0))) {
			panic(rtPanic("integer divide by zero"))
		}
		q := e.truncDiv(X, Y)
		if op == token.QUO {
			return ret(e.norm(q, t))
		}
		return ret(e.norm(f.Sub(X, f.Mul(Y, q)), t))
	case token.LSS:
		return ret(f.Cmp("<", X, Y))
	case token.LEQ:
		return ret(f.Cmp("<=", X, Y))
	case token.GTR:
		return ret(f.Cmp("<", Y, X))
	case token.GEQ:
		return ret(f.Cmp("<=", Y, X))
	case token.AND, token.OR, token.XOR, token.AND_NOT:
		// masks with 2^k-1 on non-negative values are mod; everything else is concretised (forks)
		if op == token.AND && Y.IsConst() && X.lo != nil && X.lo.Sign() >= 0 {
			m := new(big.Int).Add(Y.IV, bigOne)
			if isPow2(m) {
				return ret(f.Mod(X, f.Int(m)))
			}
		}
		// operands whose value is already determined by the path condition are made concrete (no fork); otherwise
		// 64-bit operations go through two's complement in the solver instead of enumerating operand values
		var ux, uy *big.Int
		okx, oky := false, false
		if e.P.IntBits {
			ux, okx = e.uniqueValue(X)
			uy, oky = e.uniqueValue(Y)
			if okx && oky {
				return e.concIntBin(op, t, e.bigToPattern(ux), e.bigToPattern(uy))
			}
		}
		if e.P.IntBits && intWidth(t) == 64 && op != token.AND_NOT && e.spec == 0 {
			name := map[token.Token]string{token.AND: "and", token.OR: "or", token.XOR: "xor"}[op]
			e.note("bit operation on symbolic integers in math mode encoded through int2bv/bv2int")
			if okx {
				X = f.Int(ux)
			}
			if oky {
				Y = f.Int(uy)
			}
			return ret(e.norm(f.IntBit(name, X, Y), t))
		}
		cx := e.concInt(x, t)
		cy := e.concInt(y, t)
		return e.concIntBin(op, t, cx, cy)
	}
	panic("symIntBin math op " + op.String())
}

// termToConcrete converts a constant term back to the concrete representation of type t.
func (e *Exec) termToConcrete(c *Term, t types.Type) Value {
	switch c.Sort {
	case SBool:
		return c.BV_
	case SBV:
		if isSigned(t) {
			return uint64(toSigned(c.IV, c.W).Int64())
		}
		return c.IV.Uint64()
	case SInt:
		if c.IV.Sign() < 0 {
			return uint64(c.IV.Int64())
		}
		return c.IV.Uint64()
	}
	return c
}

func (e *Exec) shift(op token.Token, tx, ty types.Type, x, y Value) Value {
	w := intWidth(tx)
	if ys, ok := y.(*Term); ok && e.mode == ModeBits {
		// symbolic shift count in bits mode
		f := e.tf
		X := e.intTerm(x, tx)
		cnt := ys
		if isSigned(ty) {
			if e.decide(f.BVCmp("bvslt", cnt, f.BV(bigZero, cnt.W))) {
				panic(rtPanic("negative shift amount"))
			}
		}
		var c *Term
		if cnt.W < w {
			c = f.Extend(cnt, false, w)
		} else if cnt.W > w {
			big_ := f.BVCmp("bvule", f.BV(big.NewInt(int64(w)), cnt.W), cnt)
			c = f.Ite(big_, f.BV(big.NewInt(int64(w)), w), f.Extract(cnt, w-1, 0))
		} else {
			c = cnt
		}
		name := "bvshl"
		if op == token.SHR {
			name = "bvlshr"
			if isSigned(tx) {
				name = "bvashr"
			}
		}
		return f.BVBin(name, X, c)
	}
	cnt := e.concInt(y, ty)
	if isSigned(ty) && int64(cnt) < 0 {
		panic(rtPanic("negative shift amount"))
	}
	if cx, ok := x.(uint64); ok {
		var r uint64
		if op == token.SHL {
			if cnt >= 64 {
				r = 0
			} else {
				r = cx << cnt
			}
		} else {
			if isSigned(tx) {
				if cnt >= 64 {
					cnt = 63
				}
				r = uint64(int64(cx) >> cnt)
			} else if cnt >= 64 {
				r = 0
			} else {
				r = cx >> cnt
			}
		}
		return normConcrete(r, tx)
	}
	X := x.(*Term)
	f := e.tf
	if e.mode == ModeBits {
		name := "bvshl"
		if op == token.SHR {
			name = "bvlshr"
			if isSigned(tx) {
				name = "bvashr"
			}
		}
		c := cnt
		if c > uint64(w) {
			c = uint64(w)
		}
		return f.BVBin(name, X, f.BV(new(big.Int).SetUint64(c), w))
	}
	if cnt > 200 {
		cnt = 200
	}
	p := f.Int(pow2(int(cnt)))
	if op == token.SHL {
		return e.norm(f.Mul(X, p), tx)
	}
	return f.Div(X, p) // floor division == arithmetic shift
}

func (e *Exec) floatBin(op token.Token, x, y Value) Value {
	cx, xc := x.(float64)
	cy, yc := y.(float64)
	if xc && yc {
		switch op {
		case token.ADD:
			return cx + cy
		case token.SUB:
			return cx - cy
		case token.MUL:
			return cx * cy
		case token.QUO:
			return cx / cy
		case token.LSS:
			return cx < cy
		case token.LEQ:
			return cx <= cy
		case token.GTR:
			return cx > cy
		case token.GEQ:
			return cx >= cy
		}
	}
	if e.mode == ModeBits {
		f := e.tf
		X, Y := e.fpTerm(x), e.fpTerm(y)
		switch op {
		case token.ADD:
			return f.FPBin("fp.add", X, Y)
		case token.SUB:
			return f.FPBin("fp.sub", X, Y)
		case token.MUL:
			return f.FPBin("fp.mul", X, Y)
		case token.QUO:
			return f.FPBin("fp.div", X, Y)
		case token.LSS:
			return f.FPCmp("fp.lt", X, Y)
		case token.LEQ:
			return f.FPCmp("fp.leq", X, Y)
		case token.GTR:
			return f.FPCmp("fp.lt", Y, X)
		case token.GEQ:
			return f.FPCmp("fp.leq", Y, X)
		}
	}
	switch op {
	case token.ADD, token.SUB, token.MUL, token.QUO:
		return e.ratBin(op, x, y)
	default:
		return e.ratCmp(op, x, y)
	}
}

// ---------------------------------------------------------------- equality

func (e *Exec) equal(t types.Type, x, y Value) Value {
	switch x := x.(type) {
	case bool:
		switch y := y.(type) {
		case bool:
			return x == y
		case *Term:
			return e.tf.Eq(e.tf.Bool(x), y)
		}
	case uint64:
		switch y := y.(type) {
		case uint64:
			return x == y
		case *Term:
			return e.simpBool(e.tf.Eq(e.intTerm(x, t), y))
		}
	case *Term:
		switch x.Sort {
		case SBool:
			return e.simpBool(e.tf.Eq(x, e.boolTerm(y)))
		case SFP:
			return e.simpBool(e.tf.FPCmp("fp.eq", x, e.fpTerm(y)))
		default:
			return e.simpBool(e.tf.Eq(x, e.intTerm(y, t)))
		}
	case float64:
		switch y := y.(type) {
		case float64:
			return x == y
		case *Term:
			return e.simpBool(e.tf.FPCmp("fp.eq", e.tf.FP(x), y))
		case *Rat:
			return e.ratCmp(token.EQL, x, y)
		}
	case *Rat:
		return e.ratCmp(token.EQL, x, y)
	case string:
		return x == y.(string)
	case *Value:
		return x == y.(*Value)
	case *Map:
		return x == y.(*Map)
	case *Chan:
		return x == y.(*Chan)
	case Slice:
		// only comparison with nil is legal
		ys := y.(Slice)
		if ys.Nil && ys.A == nil {
			return x.Nil && x.A == nil
		}
		return ys.Nil == x.Nil && len(x.A) == 0 && len(ys.A) == 0
	case Struct:
		y := y.(Struct)
		st := t.Underlying().(*types.Struct)
		var acc Value = true
		for i := range x {
			if st.Field(i).Name() == "_" {
				continue
			}
			acc = e.and(acc, e.equal(st.Field(i).Type(), x[i], y[i]))
		}
		return acc
	case Array:
		y := y.(Array)
		et := t.Underlying().(*types.Array).Elem()
		var acc Value = true
		for i := range x {
			acc = e.and(acc, e.equal(et, x[i], y[i]))
		}
		return acc
	case Iface:
		y := y.(Iface)
		if x.T == nil || y.T == nil {
			return x.T == nil && y.T == nil
		}
		if !types.Identical(x.T, y.T) {
			return false
		}
		return e.equal(x.T, x.V, y.V)
	case *ssa.Function:
		yf, _ := y.(*ssa.Function)
		return x == yf
	case *Closure:
		if y == nil {
			return false
		}
		if yf, ok := y.(*ssa.Function); ok && yf == nil {
			return false
		}
		yc, _ := y.(*Closure)
		return x == yc
	case nil:
		return y == nil
	}
	e.unsupported("equality on %T / %T", x, y)
	return nil
}

func (e *Exec) simpBool(c *Term) Value {
	if c.IsConst() {
		return c.BV_
	}
	return c
}

func (e *Exec) and(a, b Value) Value {
	if ab, ok := a.(bool); ok {
		if !ab {
			return false
		}
		return b
	}
	if bb, ok := b.(bool); ok {
		if !bb {
			return false
		}
		return a
	}
	return e.simpBool(e.tf.And(a.(*Term), b.(*Term)))
}

// ---------------------------------------------------------------- conversions

func (e *Exec) conv(dst, src types.Type, x Value) Value {
	ud, us := dst.Underlying(), src.Underlying()
	switch {
	case isIntType(ud) && isIntType(us):
		switch x := x.(type) {
		case uint64:
			return normConcrete(x, dst)
		case *Term:
			if e.mode == ModeBits {
				return e.tf.Extend(x, isSigned(src), intWidth(dst))
			}
			return e.norm(x, dst)
		}
	case isFloatType(ud) && isIntType(us):
		switch x := x.(type) {
		case uint64:
			if isSigned(src) {
				return float64(int64(x))
			}
			return float64(x)
		case *Term:
			if e.mode == ModeBits {
				return e.tf.FPFromBV(e.tf.Extend(x, isSigned(src), 64), isSigned(src))
			}
			return e.ratFinish(x, big.NewInt(1), false)
		}
	case isIntType(ud) && isFloatType(us):
		switch x := x.(type) {
		case float64:
			if isSigned(dst) {
				return normConcrete(uint64(int64(x)), dst)
			}
			return normConcrete(uint64(x), dst)
		case *Rat:
			if x.Inexact {
				e.res.InexactUse++
				e.end("inconclusive", "float->int conversion of a float whose rounding could not be excluded (math mode)")
			}
			q := e.truncDiv(x.Num, e.tf.Int(x.Den))
			lo, hi := typeRange(dst)
			if q.lo == nil || q.hi == nil || q.lo.Cmp(lo) < 0 || q.hi.Cmp(hi) > 0 {
				e.note("float->int conversion whose range is not established by intervals; out-of-range behaviour is not modelled in math mode")
			}
			if q.IsConst() {
				return e.termToConcrete(q, dst)
			}
			return q
		case *Term: // FP
			f := e.tf
			w := intWidth(dst)
			if isSigned(dst) {
				// amd64 CVTTSD2SQ: NaN / out of range -> 0x8000000000000000
				lim := math.Ldexp(1, 63)
				inRange := f.And(f.FPCmp("fp.lt", f.FP(-lim-1025), x), f.FPCmp("fp.lt", x, f.FP(lim)))
				r := f.Ite(inRange, f.FPToBV(x, true, 64), f.BV(pow2(63), 64))
				return f.Extend(r, true, w)
			}
			lim := math.Ldexp(1, 64)
			inRange := f.And(f.FPCmp("fp.lt", f.FP(-1), x), f.FPCmp("fp.lt", x, f.FP(lim)))
			e.note("float->unsigned conversion: out-of-range/NaN inputs modelled as 0x8000000000000000 (amd64 approximation)")
			r := f.Ite(inRange, f.FPToBV(x, false, 64), f.BV(pow2(63), 64))
			return f.Extend(r, false, w)
		}
	case isFloatType(ud) && isFloatType(us):
		if intWidthFloat(ud) == intWidthFloat(us) {
			return x
		}
		if c, ok := x.(float64); ok {
			if intWidthFloat(ud) == 32 {
				return float64(float32(c))
			}
			return c
		}
	case isStringType(ud):
		switch {
		case isIntType(us):
			return string(rune(int64(e.concInt(x, src))))
		case isStringType(us):
			return x
		}
		if sl, ok := us.(*types.Slice); ok {
			s := x.(Slice)
			if b, ok := sl.Elem().Underlying().(*types.Basic); ok && b.Kind() == types.Uint8 {
				bs := make([]byte, len(s.A))
				for i := range s.A {
					bs[i] = byte(e.concInt(s.A[i], sl.Elem()))
				}
				return string(bs)
			}
			rs := make([]rune, len(s.A))
			for i := range s.A {
				rs[i] = rune(int64(e.concInt(s.A[i], sl.Elem())))
			}
			return string(rs)
		}
	case isStringType(us):
		if sl, ok := ud.(*types.Slice); ok {
			s := x.(string)
			if b, ok := sl.Elem().Underlying().(*types.Basic); ok && b.Kind() == types.Uint8 {
				a := make([]Value, len(s))
				for i := 0; i < len(s); i++ {
					a[i] = uint64(s[i])
				}
				return Slice{A: a}
			}
			var a []Value
			for _, r := range s {
				a = append(a, normConcrete(uint64(r), sl.Elem()))
			}
			return Slice{A: a}
		}
	}
	if types.Identical(ud, us) {
		return x
	}
	if _, ok := ud.(*types.Pointer); ok {
		if _, ok := us.(*types.Pointer); ok {
			return x
		}
	}
	e.unsupported("conversion %v -> %v (%T)", src, dst, x)
	return nil
}

func intWidthFloat(t types.Type) int {
	if b, ok := t.(*types.Basic); ok && b.Kind() == types.Float32 {
		return 32
	}
	return 64
}

func bmax2(a, b *big.Int) *big.Int {
	if a == nil {
		return b
	}
	return bmax(a, b)
}
func bmin2(a, b *big.Int) *big.Int {
	if a == nil {
		return b
	}
	return bmin(a, b)
}

func oddPart(d *big.Int) *big.Int {
	o := new(big.Int).Set(d)
	for o.Sign() != 0 && o.Bit(0) == 0 {
		o.Rsh(o, 1)
	}
	return o
}

// divExact returns t/d if t is syntactically a multiple of d (linear combinations, ite).
func divExact(f *TF, t *Term, d *big.Int) (*Term, bool) {
	switch t.Op {
	case "const":
		q, r := new(big.Int).QuoRem(t.IV, d, new(big.Int))
		if r.Sign() == 0 {
			return f.Int(q), true
		}
	case "+", "-":
		a, ok1 := divExact(f, t.Args[0], d)
		b, ok2 := divExact(f, t.Args[1], d)
		if ok1 && ok2 {
			if t.Op == "+" {
				return f.Add(a, b), true
			}
			return f.Sub(a, b), true
		}
	case "neg":
		if a, ok := divExact(f, t.Args[0], d); ok {
			return f.Neg(a), true
		}
	case "*":
		for i := 0; i < 2; i++ {
			if a, ok := divExact(f, t.Args[i], d); ok {
				return f.Mul(a, t.Args[1-i]), true
			}
		}
	case "ite":
		a, ok1 := divExact(f, t.Args[1], d)
		b, ok2 := divExact(f, t.Args[2], d)
		if ok1 && ok2 {
			return f.Ite(t.Args[0], a, b), true
		}
	}
	return nil, false
}

// uniqueValue reports whether the path condition determines the value of t (one solver query; cached).
func (e *Exec) uniqueValue(t *Term) (*big.Int, bool) {
	if t.IsConst() {
		return t.IV, true
	}
	if v, ok := e.known[t]; ok {
		return v, true
	}
	if e.notUnique[t] {
		return nil, false
	}
	if e.spec > 0 {
		panic(specAbort{"uniqueness query inside a speculative region"})
	}
	e.live()
	mv, err := Eval(t, e.model)
	if err != nil {
		return nil, false
	}
	r, _, _ := e.solver.CheckWithVars(e.tf.Not(e.tf.Eq(t, e.constLike(t, mv.I))), nil)
	e.res.Queries++
	if r == "unsat" {
		e.known[t] = mv.I
		return mv.I, true
	}
	e.notUnique[t] = true
	return nil, false
}

func (e *Exec) bigToPattern(v *big.Int) uint64 {
	if v.Sign() < 0 {
		return uint64(v.Int64())
	}
	return v.Uint64()
}
