package main

// Shadow checking (translator validation at the level of single operations): with Program.Shadow set, every
// operation on symbolic operands is also computed concretely on the operands' values under the current model and
// compared with the value of the result term under that model. A mismatch is an encoding bug and ends the path.

import (
	"fmt"
	"go/token"
	"go/types"
	"math/big"
)

func (e *Exec) modelVal(v Value, t types.Type) (Value, bool) {
	switch x := v.(type) {
	case *Term:
		mv, err := Eval(x, e.model)
		if err != nil {
			return nil, false
		}
		switch x.Sort {
		case SBool:
			return mv.B, true
		case SFP:
			return mv.F, true
		case SBV:
			if t != nil && isSigned(t) {
				return uint64(toSigned(mv.I, x.W).Int64()), true
			}
			return mv.I.Uint64(), true
		case SInt:
			lo, hi := new(big.Int).Neg(pow2(63)), pow2(64)
			if mv.I.Cmp(lo) < 0 || mv.I.Cmp(hi) >= 0 {
				return nil, false
			}
			if mv.I.Sign() < 0 {
				return uint64(mv.I.Int64()), true
			}
			return mv.I.Uint64(), true
		}
	case *Rat:
		if x.Inexact || x.Scaled != nil {
			return nil, false
		}
		mv, err := Eval(x.Num, e.model)
		if err != nil {
			return nil, false
		}
		f, exact := new(big.Rat).SetFrac(mv.I, x.Den).Float64()
		if !exact {
			return nil, false
		}
		return f, true
	case Array:
		var et types.Type
		if at, ok := typeUnder[*types.Array](t); ok {
			et = at.Elem()
		}
		r := make(Array, len(x))
		for i := range x {
			c, ok := e.modelVal(x[i], et)
			if !ok {
				return nil, false
			}
			r[i] = c
		}
		return r, true
	case Struct:
		st, isSt := typeUnder[*types.Struct](t)
		r := make(Struct, len(x))
		for i := range x {
			var ft types.Type
			if isSt {
				ft = st.Field(i).Type()
			}
			c, ok := e.modelVal(x[i], ft)
			if !ok {
				return nil, false
			}
			r[i] = c
		}
		return r, true
	}
	return v, true
}

func containsSym(v Value) bool {
	switch x := v.(type) {
	case *Term, *Rat:
		return true
	case Array:
		for _, a := range x {
			if containsSym(a) {
				return true
			}
		}
	case Struct:
		for _, a := range x {
			if containsSym(a) {
				return true
			}
		}
	}
	return false
}

func sameConcrete(a, b Value) bool {
	switch x := a.(type) {
	case float64:
		y, ok := b.(float64)
		return ok && (x == y || (x != x && y != y))
	case Array:
		y, ok := b.(Array)
		if !ok || len(x) != len(y) {
			return false
		}
		for i := range x {
			if !sameConcrete(x[i], y[i]) {
				return false
			}
		}
		return true
	case Struct:
		y, ok := b.(Struct)
		if !ok || len(x) != len(y) {
			return false
		}
		for i := range x {
			if !sameConcrete(x[i], y[i]) {
				return false
			}
		}
		return true
	}
	return a == b
}

// shadowBin validates r = x op y.
func (e *Exec) shadowBin(op token.Token, tx, ty, tr types.Type, x, y, r Value) {
	if !e.P.Shadow || e.inShadow || e.needModel || (!containsSym(x) && !containsSym(y)) {
		return
	}
	cx, ok1 := e.modelVal(x, tx)
	cy, ok2 := e.modelVal(y, ty)
	cr, ok3 := e.modelVal(r, tr)
	if !ok1 || !ok2 || !ok3 {
		return
	}
	var want Value
	func() {
		e.inShadow = true
		defer func() {
			e.inShadow = false
			if rec := recover(); rec != nil {
				if _, isTP := rec.(targetPanic); isTP {
					want = nil
					return
				}
				panic(rec)
			}
		}()
		want = e.binop(op, tx, ty, cx, cy)
	}()
	if want == nil {
		return
	}
	if !sameConcrete(want, cr) {
		e.end("unsupported", fmt.Sprintf("SHADOW MISMATCH: %v %s %v (type %v): concrete %v, term evaluates to %v", goString(cx), op, goString(cy), tx, goString(want), goString(cr)))
	}
}

func (e *Exec) shadowConv(dst, src types.Type, x, r Value) {
	if !e.P.Shadow || e.inShadow || e.needModel || !containsSym(x) {
		return
	}
	cx, ok1 := e.modelVal(x, src)
	cr, ok2 := e.modelVal(r, dst)
	if !ok1 || !ok2 {
		return
	}
	e.inShadow = true
	want := e.conv(dst, src, cx)
	e.inShadow = false
	if !sameConcrete(want, cr) {
		e.end("unsupported", fmt.Sprintf("SHADOW MISMATCH: conversion %v -> %v of %v: concrete %v, term evaluates to %v", src, dst, goString(cx), goString(want), goString(cr)))
	}
}
