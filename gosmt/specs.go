package main

func propSpecs() map[string]*PropSpec {
	m := map[string]*PropSpec{}
	for _, s := range []*PropSpec{specC17(), specC09(), specC02()} {
		m[s.ID] = s
	}
	return m
}

func specC17() *PropSpec {
	o := func(h, desc string, covers ...string) Obligation {
		return Obligation{Harness: h, Pkg: "morton", Mode: "bits", Tiers: "both", Covers: covers, Desc: desc,
			Bounds: "all 64-bit values of every input (bit-vector semantics; loops have constant trip counts 5 and 6, fully unrolled)"}
	}
	return &PropSpec{
		ID: "C17",
		Obligations: []Obligation{
			o("VerifC17RoundTrip", "x,y <= 2^32-1 => ok and FromZ(ToZ(x,y)) == (x,y)", "roundtrip"),
			o("VerifC17Injective", "(x1,y1) != (x2,y2), all 32-bit => ToZ differs", "injective"),
			o("VerifC17Onto", "for every 64-bit z: FromZ(z) fits 32 bits and ToZ(FromZ(z)) == z", "onto"),
			o("VerifC17OkFlag", "ok <=> x <= MaxUint32 && y <= MaxUint32 for all 64-bit x,y", "okflag"),
			o("VerifC17MustToZ", "MustToZ panics exactly when not encodable, equals ToZ otherwise", "mustToZ"),
			o("VerifC17Parent", "ToZ(x>>1,y>>1) == ToZ(x,y)>>2 and low bits = position in parent", "parent"),
			o("VerifC17ParentIter", "ToZ(x/2^k,y/2^k) == ToZ(x,y)>>(2k), k case-split 0..32", "parent-iter"),
		},
		Assumptions: []string{
			"uint is 64 bits (amd64/arm64 targets of the tool)",
			"morton.init (mask tables) is executed by the interpreter from the real source",
		},
		Outside: []string{"nothing within the 64-bit word: the claim is exhaustive over all input values"},
	}
}

func specC09() *PropSpec {
	b := "all integer points (|coordinate| < 2^61 internal units) outside the grid or within 2-3 pixels of a border inside it; accepted built-in sets x ids; float->int step abstracted (quantified over its integer result)"
	return &PropSpec{
		ID:       "C09",
		NeedsGen: true,
		Obligations: []Obligation{
			{Harness: "VerifC09InsertPointQuick", Pkg: "pointindex", Mode: "math", Tiers: "quick", Covers: []string{"accepted", "rejected"},
				Desc: "InsertPoint accepts exactly the points of the half-open pixel grid; ids {0, mid, max} of every accepted built-in set", Bounds: b},
			{Harness: "VerifC09InsertPointThorough", Pkg: "pointindex", Mode: "math", Tiers: "thorough", Covers: []string{"accepted", "rejected"},
				Desc: "same, every id of every accepted built-in set", Bounds: b},
			{Harness: "VerifC09InsertPointSynthetic", Pkg: "pointindex", Mode: "math", Tiers: "both", Covers: []string{"accepted", "rejected"},
				Desc: "same on synthetic dyadic grids with zero, negative, fractional and large origins", Bounds: b},
		},
		Assumptions: []string{
			"float step of intgeom.FromGeomOrd abstracted in the integer obligations (harness quantifies over the resulting int64); the float step is a separate obligation",
			"levels deeper than 32 excluded here (Morton range, see C06)",
		},
		Outside: []string{"points more than 3 pixels inside the grid (same division, no border involved)", "tile matrix sets other than the built-in accepted ones and the synthetic family"},
	}
}

func specC02() *PropSpec {
	return &PropSpec{
		ID:       "C02",
		NeedsGen: true,
		Obligations: []Obligation{
			{Harness: "VerifC02KernelFull", Pkg: "pointindex", Mode: "math", Tiers: "both", Internal: true, Covers: []string{"meets", "misses"},
				Desc: "lineIntersects(l,e) == exact closed-segment/half-open-box oracle", Bounds: "all integer coordinates with |c| <= 2^60, box sides 1..2^60 (no other bound)"},
			{Harness: "VerifC02DescentStep", Pkg: "pointindex", Mode: "math", Tiers: "both", Internal: true, Covers: []string{"descent-step", "several-children"},
				Subst: map[string]string{"pointindex.lineIntersects": "pointindex.verifLineIntersectsContract"},
				Desc: "one quadtree descent step: arbitrary parent, occupancy and segment meeting the parent => exactly the occupied children met, in order of travel",
				Bounds: "all integers |c| <= 2^58, half span 1..2^58, all 16 occupancies"},
			{Harness: "VerifC02ChildrenTile", Pkg: "pointindex", Mode: "math", Tiers: "both", Internal: true, Covers: []string{"children-tile"},
				Desc: "children extents partition the parent extent at its centre", Bounds: "deepest level 1..32 x every shallower level, pixel size 1..2^22, every pixel address, origin |c| <= 2^58"},
		},
		Regression: []string{"findings/C02-F1-corner-through.json", "findings/C02-F1-tip-on-exclusive-edge.json"},
	}
}
