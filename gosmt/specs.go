package main

func propSpecs() map[string]*PropSpec {
	m := map[string]*PropSpec{}
	for _, s := range []*PropSpec{specC17(), withKernel(specC09()), specC02(), withKernel(specC01()), withKernel(specC04()), withKernel(specC05()), withKernel(specC06()), withKernel(specC07()), withKernel(specC08()), withKernel(specC18()), withKernel(specC03()), specC14(), specC15(), specC10(), specC11()} {
		m[s.ID] = s
	}
	return m
}

func specC17() *PropSpec {
	o := func(h, desc string, covers ...string) Obligation {
		return Obligation{Harness: h, Pkg: "morton", Mode: "bits", Tiers: "both", Covers: covers, Desc: desc,
			Bounds: "all 64-bit values of every input (bit-vector semantics; loops have constant trip counts 5 and 6, fully unrolled)"}
	}
	return &PropSpec{
		ID: "C17", Exhaustive: true,
		Obligations: []Obligation{
			o("VerifC17RoundTrip", "x,y <= 2^32-1 => ok and FromZ(ToZ(x,y)) == (x,y)", "roundtrip"),
			o("VerifC17Injective", "(x1,y1) != (x2,y2), all 32-bit => ToZ differs", "injective"),
			o("VerifC17Onto", "for every 64-bit z: FromZ(z) fits 32 bits and ToZ(FromZ(z)) == z", "onto"),
			o("VerifC17OkFlag", "ok <=> x <= MaxUint32 && y <= MaxUint32 for all 64-bit x,y", "okflag"),
			o("VerifC17MustToZ", "MustToZ panics exactly when not encodable, equals ToZ otherwise", "mustToZ"),
			o("VerifC17Parent", "ToZ(x>>1,y>>1) == ToZ(x,y)>>2 and low bits = position in parent", "parent"),
			o("VerifC17ParentIter", "ToZ(x/2^k,y/2^k) == ToZ(x,y)>>(2k), k case-split 0..32", "parent-iter"),
		},
		Assumptions: []string{
			"uint is 64 bits (amd64/arm64 targets of the tool)",
			"morton.init (mask tables) is executed by the interpreter from the real source",
		},
		Outside: []string{"nothing within the 64-bit word: the claim is exhaustive over all input values"},
	}
}

func specC09() *PropSpec {
	b := "every integer point whose ordinates are each within 2-3 pixels of a border of their axis (inside or outside) or arbitrarily far outside (|c| < 2^61 internal units); float->int step abstracted (quantified over its integer result)"
	return &PropSpec{
		ID:       "C09",
		NeedsGen: true,
		Obligations: []Obligation{
			{Harness: "VerifC09InsertPointNear", Pkg: "pointindex", Mode: "math", Tiers: "both", Covers: []string{"accepted", "rejected"},
				Desc: "synthetic grids (4x4 origins, deepest id 0..2): every point within two pixels of a border on either side, pixel addresses case-split", Bounds: "48 grids x 8x8 pixel addresses around the borders x every sub-pixel position"},
			{Harness: "VerifC09InsertPointQuick", Pkg: "pointindex", Mode: "math", Tiers: "quick", Covers: []string{"accepted", "rejected"},
				Desc: "InsertPoint accepts exactly the points of the half-open pixel grid; ids {0, mid, max} of every accepted built-in set", Bounds: b},
			{Harness: "VerifC09InsertPointThorough", Pkg: "pointindex", Mode: "math", Tiers: "thorough", Covers: []string{"accepted", "rejected"},
				Desc: "same, every id of every accepted built-in set", Bounds: b},
			{Harness: "VerifC09InsertPointSynthetic", Pkg: "pointindex", Mode: "math", Tiers: "both", Covers: []string{"accepted", "rejected"},
				Desc: "same on synthetic dyadic grids with zero, negative, fractional and large origins", Bounds: b},
			pipeObl("VerifC09Snap", "both", "O-4: SnapPolygon with vertices up to one pixel outside either corner of the grid: panic with OutsideGridError, or empty result when ignoring", "triangle, 3x3 px windows at both grid corners reaching one pixel outside, positions {0,1/2}, both flag values", "outside", "inside"),
		},
		Assumptions: []string{
			"float step of intgeom.FromGeomOrd abstracted in the integer obligations (harness quantifies over the resulting int64); the float step is a separate obligation",
			"levels deeper than 32 excluded here (Morton range, see C06)",
		},
		Outside: []string{"points more than 3 pixels inside the grid (same division, no border involved)", "tile matrix sets other than the built-in accepted ones and the synthetic family"},
	}
}

func specC02() *PropSpec {
	return &PropSpec{
		ID:       "C02",
		NeedsGen: true,
		Obligations: []Obligation{
			{Harness: "VerifC02KernelFull", Pkg: "pointindex", Mode: "math", Tiers: "both", Internal: true, Covers: []string{"meets", "misses"},
				Desc: "lineIntersects(l,e) == exact closed-segment/half-open-box oracle", Bounds: "all integer coordinates with |c| <= 2^60, box sides 1..2^60 (no other bound)"},
			{Harness: "VerifC02DescentStep", Pkg: "pointindex", Mode: "math", Tiers: "both", Internal: true, Covers: []string{"descent-step", "several-children"},
				Subst: map[string]string{"pointindex.lineIntersects": "pointindex.verifLineIntersectsContract"},
				Desc: "one quadtree descent step: arbitrary parent, occupancy and segment meeting the parent => exactly the occupied children met, in order of travel",
				Bounds: "all integers |c| <= 2^58, half span 1..2^58, all 16 occupancies"},
			pipeObl("VerifC02PolyTri2x2", "both", "O-5: a valid triangle whose routed boundary repeats no centre is returned as exactly that boundary, counter-clockwise", "n=3, 2x2 px window, all sub-pixel positions, id {0}", "non-collapsing"),
			pipeObl("VerifC02PolyTri2x2L2", "thorough", "O-5 with two levels", "n=3, 2x2 px window, all sub-pixel positions, ids {0,1}", "non-collapsing"),
			pipeObl("VerifC02PolyQuad2x2Half", "thorough", "O-5 for quadrilaterals on the half lattice", "n=4, 2x2 px window, positions {1/4,3/4}, ids {0,1}", "non-collapsing"),
			{Harness: "VerifC02ChildrenTile", Pkg: "pointindex", Mode: "math", Tiers: "both", Internal: true, Covers: []string{"children-tile"},
				Desc: "children extents partition the parent extent at its centre", Bounds: "deepest level 1..32 x every shallower level, pixel size 1..2^22, every pixel address, origin |c| <= 2^58"},
		},
		Regression: []string{"findings/C02-F1-corner-through.json", "findings/C02-F1-tip-on-exclusive-edge.json"},
		Assumptions: pipeAssumptions,
	}
}

var snapSubst = map[string]string{"pointindex.lineIntersects": "pointindex.verifLineIntersectsContract"}

func specC01() *PropSpec {
	c02 := specC02()
	var routing []Obligation
	for _, o := range c02.Obligations {
		if o.Harness == "VerifC02DescentStep" || o.Harness == "VerifC02ChildrenTile" {
			o.Desc = "(step 1 of the C01 decomposition: exact routing) " + o.Desc
			routing = append(routing, o)
		}
	}
	return &PropSpec{
		ID:       "C01",
		NeedsGen: true,
		Obligations: append(routing, []Obligation{
			{Harness: "VerifC01Tri2x2", Pkg: "snap", Mode: "math", Tiers: "both", Covers: []string{"snapped", "has-geometry"}, Subst: snapSubst,
				Desc: "valid triangle, pixels in a 2x2 window straddling the root centre, all sub-pixel positions: no proper crossing", Bounds: "n=3, 2x2 px window, 2^-10 px lattice, id {0}, all flags"},
			pipeObl("VerifC01ThinShellHole", "both", "template: thin shell collapsing at tile matrix 0 only, with a triangular hole", "shell 4 + hole 3 vertices in pixels (7,7),(8,7), corner positions jittering on the 1/8 px lattice (valid by construction), ids {0,1}", "snapped", "has-geometry"),
			{Harness: "VerifC01Quad2x2", Pkg: "snap", Mode: "math", Tiers: "thorough", Covers: []string{"snapped", "has-geometry"}, Subst: snapSubst,
				Desc: "valid quadrilateral, 2x2 window", Bounds: "n=4, 2x2 px window, 2^-10 px lattice, id {0}, all flags"},
			pipeObl("VerifC01Pent2x2Half", "thorough", "valid pentagon on the half lattice: no proper crossing"+timeBoxed, "n=5, 2x2 px window, positions {1/4,3/4}, id {0}, all flags", "snapped", "has-geometry"),
			{Harness: "VerifC01Tri3x3", Pkg: "snap", Mode: "math", Tiers: "thorough", Covers: []string{"snapped", "has-geometry"}, Subst: snapSubst,
				Desc: "valid triangle, 3x3 window", Bounds: "n=3, 3x3 px window, 2^-10 px lattice, id {0}, all flags"},
			{Harness: "VerifC01Tri2x2TwoLevels", Pkg: "snap", Mode: "math", Tiers: "thorough", Covers: []string{"snapped", "has-geometry"}, Subst: snapSubst,
				Desc: "valid triangle, 2x2 window, ids {0,1}", Bounds: "n=3, 2x2 px window, 2^-10 px lattice, ids {0,1}, all flags"},
		}...),
	}
}

// kernelObl: the obligation that justifies replacing lineIntersects by its oracle; part of every check that uses it.
func kernelObl() Obligation {
	return Obligation{Harness: "VerifC02KernelFull", Pkg: "pointindex", Mode: "math", Tiers: "both", Internal: true, Covers: []string{"meets", "misses"},
		Desc: "lineIntersects(l,e) == exact closed-segment/half-open-box oracle (justifies the contract substitution used by the pipeline obligations of this property)", Bounds: "all integer coordinates with |c| <= 2^60, box sides 1..2^60"}
}

func withKernel(s *PropSpec) *PropSpec {
	s.Obligations = append([]Obligation{kernelObl()}, s.Obligations...)
	return s
}

func pipeObl(h, tiers, desc, bounds string, covers ...string) Obligation {
	return Obligation{Harness: h, Pkg: "snap", Mode: "math", Tiers: tiers, Covers: covers, Subst: snapSubst, Desc: desc, Bounds: bounds, Budget: 80000000}
}

const timeBoxed = " (time-boxed: exploration in random order, truncation reported)"

var pipeAssumptions = []string{
	"synthetic dyadic grid (root tile of 16 units, tile matrix z = 16*2^z pixels per axis), on which every float operation of the pipeline is exact; exactness is checked per operation by interval side-conditions and a path that cannot establish it is reported as inconclusive",
	"pixel addresses of the vertices are case-split inside the stated window; sub-pixel positions are symbolic on the stated lattice",
	"pointindex.lineIntersects is replaced by its exact oracle (justified by C02 O-0, which proves them equal for all integer inputs on the current tree)",
	"map iteration in insertion order unless stated (C07 quantifies over orders)",
}

var pipeOutside = []string{
	"polygons with more vertices / larger windows / more rings than stated", "non-dyadic (real) grids for the whole pipeline (covered at kernel level by C02/C03/C09)",
	"tile matrices deeper than id 2 of the synthetic set",
}

func specC04() *PropSpec {
	return &PropSpec{ID: "C04", NeedsGen: true, Assumptions: pipeAssumptions, Outside: pipeOutside,
		Obligations: []Obligation{
			pipeObl("VerifC04Tri2x2", "both", "valid triangle: every output vertex is the pixel centre of an input vertex; both ends of every output edge within half a pixel (Chebyshev) of one input edge", "n=3, 2x2 px window, all sub-pixel positions (2^-10 px), id {0}, all flags (no location in such a triangle is farther than a pixel from its boundary, so coverage is checked in the template below)", "checked", "has-geometry"),
			func() Obligation {
				o := pipeObl("VerifC04ShellWithHole", "thorough", "template: fixed square shell with any valid triangular hole in the window: provenance, edge distance, and coverage agreement at 49 probe locations (pixel centres) wherever they are farther than one pixel from the input boundary", "hole n=3 in 2x2 px window, sub-pixel positions {1/4,3/4}, ids {0,1}, flags none and keep+reverse", "checked", "has-geometry")
				o.Budget = 40000000
				o.DeadlineSec = 1200
				return o
			}(),
			{Harness: "VerifMatchInners", Pkg: "snap", Mode: "math", Tiers: "both", Internal: true, Covers: []string{"matched", "realistic-configuration"}, MapOrderBudget: 3,
				Desc: "hole matching on catalogues of shells (nested, overlapping with equal area, touching, disjoint; 2-3 at a time, every order) and holes (every start vertex): attached exactly once, to a shell containing it, the smallest such; independent of map iteration order", Bounds: "7 shells x 7 holes catalogue, 2..3 shells, 1 hole"},
			pipeObl("VerifC04Quad2x2Half", "thorough", "valid quadrilateral, half lattice", "n=4, 2x2 px window, sub-pixel positions {1/4,3/4}, ids {0,1}", "checked", "has-geometry"),
			pipeObl("VerifC04Pent2x2Half", "thorough", "valid pentagon, half lattice"+timeBoxed, "n=5, 2x2 px window, sub-pixel positions {1/4,3/4}, id {0}", "checked", "has-geometry"),
		}}
}

func specC05() *PropSpec {
	return &PropSpec{ID: "C05", NeedsGen: true, Regression: []string{"findings/C05-F4-webmercator-figure8.json"}, Assumptions: pipeAssumptions, Outside: append([]string{"real (non-dyadic) grids beyond the figure-of-eight obligation O-7 (solver-chosen pixels of WebMercatorQuad id 17 / NetherlandsRDNewQuad id 14)"}, pipeOutside...),
		Obligations: []Obligation{
			pipeObl("VerifC05Ring3", "both", "any 3-vertex ring (valid or not): orientation, no repeated vertices, size policy, keep = drop + points/lines (twin execution)", "n=3, 2x2 px window, sub-pixel positions on the 1/8 px lattice, id {0}, all flags", "checked"),
			pipeObl("VerifC05Ring3Edgy", "thorough", "any 3-vertex ring on pixel borders/corners/centres, two levels", "n=3, 2x2 px window, sub-pixel positions {0,1/2}, ids {0,1}", "checked"),
			pipeObl("VerifC05Ring4Centre", "both", "any 4-vertex ring on pixel centres, two levels", "n=4, 2x2 px window, pixel centres, ids {0,1}", "checked"),
			pipeObl("VerifC05Ring3Full", "thorough", "any 3-vertex ring, all sub-pixel positions, two levels", "n=3, 2x2 px window, 2^-10 px lattice, ids {0,1}", "checked"),
			pipeObl("VerifC05Ring4Edgy", "thorough", "any 4-vertex ring on pixel borders/corners/centres", "n=4, 2x2 px window, sub-pixel positions {0,1/2}, id {0}", "checked"),
			pipeObl("VerifC05ThinShellHole", "both", "template: thin shell collapsing at tile matrix 0 only, with a triangular hole", "shell 4 + hole 3 vertices in pixels (7,7),(8,7), corner positions jittering on the 1/8 px lattice (valid by construction), ids {0,1}", "checked"),
			pipeObl("VerifC05BowtieHole", "both", "template: fixed square shell with a self-crossing four-vertex hole (one vertex per pixel of the window, Z order)", "hole vertices in pixels (5,5),(10,5) jittering on the 1/8 px lattice, the other two on pixel centres of (5,10),(10,10), ids {1,0}", "checked"),
			func() Obligation {
				o := pipeObl("VerifC05BowtieHoleEighth", "thorough", "all four hole vertices on the 1/8 px lattice, tile matrix 1 (time-boxed)", "hole vertices pinned to 4 pixels, 1/8 px lattice, id {1}; time box 20 min", "checked")
				o.DeadlineSec = 1200
				return o
			}(),
			{Harness: "VerifC05RealGridFigure8WebMercatorBoth", Pkg: "snap", Mode: "bits", Tiers: "thorough", MaxPaths: 8, TimeoutMs: 300000, DeadlineSec: 900, Covers: []string{"conversion-error-found"}, Budget: 80000000,
				Desc: "O-7 on WebMercatorQuad id 17, both classes of round-trip error (both ordinates off / one ordinate off by more than a unit)", Bounds: "search space: every pixel of level 29; up to 8 witnesses, 15 min"},
			{Harness: "VerifC05RealGridFigure8WebMercator", Pkg: "snap", Mode: "bits", Tiers: "quick", MaxPaths: 4, TimeoutMs: 120000, DeadlineSec: 420, Covers: []string{"conversion-error-found"}, Budget: 80000000,
				Desc: "O-7: WebMercatorQuad id 17: the solver searches (exact IEEE-754 semantics, all pixel addresses of level 29) pixels whose int->float->int round trip is off; a ring passing that pixel's centre twice must still be split there (no vertex twice in any returned ring)", Bounds: "search space: every pixel of level 29; up to 8 solver-found witnesses, 7 min"},
			{Harness: "VerifC05RealGridFigure8RD", Pkg: "snap", Mode: "bits", Tiers: "thorough", MaxPaths: 8, TimeoutMs: 300000, DeadlineSec: 900, Covers: []string{"conversion-error-found"}, Budget: 80000000,
				Desc: "O-7 on NetherlandsRDNewQuad id 14 (both ordinates off by one: rarer, slower to find)", Bounds: "search space: every pixel of level 26; up to 8 witnesses, 15 min"},
			pipeObl("VerifC05Thin4", "both", "any 4-vertex ring in a thin window", "n=4, window of 2x1 pixels, sub-pixel positions {1/4,3/4}, ids {0,1}", "checked"),
			pipeObl("VerifC05Thin5", "thorough", "any 5-vertex ring in a thin window", "n=5, window of 2x1 pixels, sub-pixel positions {1/4,3/4}, ids {0,1}", "checked"),
			pipeObl("VerifC05Zigzag7Row", "thorough", "every 7-vertex sequence on the centres of a row of four pixels"+timeBoxed, "n=7, 4x1 px window, pixel centres, id {0}", "checked"),
			pipeObl("VerifC05Zigzag6Square", "both", "every 6-vertex sequence on the centres of a 2x2 block", "n=6, 2x2 px window, pixel centres, id {0}", "checked"),
			pipeObl("VerifC05Pent2x2Half", "thorough", "any 5-vertex ring on the half lattice"+timeBoxed, "n=5, 2x2 px window, sub-pixel positions {1/4,3/4}, id {0}", "checked"),
			pipeObl("VerifC05Ring5Centre", "thorough", "any 5-vertex ring on pixel centres", "n=5, 3x3 px window, pixel centres, ids {0,1}", "checked"),
			pipeObl("VerifC05Hole", "thorough", "any shell + hole of 3 vertices each", "3+3 vertices, 2x2 px window, sub-pixel positions {0,1/2}, id {0}", "checked"),
		}}
}

func specC06() *PropSpec {
	return &PropSpec{ID: "C06", NeedsGen: true, Assumptions: pipeAssumptions, Outside: append([]string{"asymptotic running time (only: instruction budget not exceeded at these sizes)", "deepest level > 32 (Morton range)"}, pipeOutside...),
		Obligations: []Obligation{
			{Harness: "VerifC06MortonRange", Pkg: "pointindex", Mode: "bits", Tiers: "both", SymMaps: true, Covers: []string{"inserted", "level-above-32"},
				Desc: "O-3: InsertCoord of any in-range pixel address (symbolic 64-bit) for accepted built-in sets at the deepest id, the ids around level 32 and a middle id: never panics (levels above 32: known finding F3)", Bounds: "7 accepted sets x up to 4 ids x all in-range addresses (bit-vector semantics)"},
			pipeObl("VerifC06Ring3", "both", "any 3-vertex ring: no panic, no budget overrun", "n=3, 2x2 px window, sub-pixel positions on the 1/8 px lattice, id {0}, all flags", "ran"),
			pipeObl("VerifC06Ring3Edgy", "thorough", "any 3-vertex ring on pixel borders/corners/centres, two levels", "n=3, 2x2 px window, sub-pixel positions {0,1/2}, ids {0,1}", "ran"),
			pipeObl("VerifC06Ring4Centre", "both", "any 4-vertex ring on pixel centres (repeated vertices, spikes, zig-zags), two levels", "n=4, 2x2 px window, pixel centres, ids {0,1}", "ran"),
			pipeObl("VerifC06Ring3Full", "thorough", "any 3-vertex ring, all sub-pixel positions, two levels", "n=3, 2x2 px window, 2^-10 px lattice, ids {0,1}", "ran"),
			pipeObl("VerifC06Tiny", "both", "rings of one and two points", "n=1..2, 2x2 px window, all sub-pixel positions", "ran"),
			pipeObl("VerifC06Ring4Edgy", "thorough", "any 4-vertex ring on pixel borders/corners/centres (repeated vertices, spikes, zig-zags included)", "n=4, 2x2 px window, sub-pixel positions {0,1/2}, id {0}", "ran"),
			pipeObl("VerifC06ThinShellHole", "both", "template: thin shell collapsing at tile matrix 0 only, with a triangular hole (valid polygon)", "shell 4 + hole 3 vertices in pixels (7,7),(8,7), corner positions jittering on the 1/8 px lattice (valid by construction), ids {0,1},{1,0},{1}, all flags", "ran"),
			pipeObl("VerifC06BowtieHole", "both", "template: fixed square shell with a self-crossing four-vertex hole", "hole vertices pinned to pixels (5,5),(10,5),(5,10),(10,10), sub-pixel positions {1/4,3/4}, ids {0,1}", "ran"),
			pipeObl("VerifC06Thin4", "both", "any 4-vertex ring in a thin window (vertices sharing a coarse pixel but not a fine one)", "n=4, window of 2x1 pixels, sub-pixel positions {1/4,3/4}, ids {0,1}", "ran"),
			pipeObl("VerifC06Thin5", "thorough", "any 5-vertex ring in a thin window", "n=5, window of 2x1 pixels, sub-pixel positions {1/4,3/4}, ids {0,1}", "ran"),
			pipeObl("VerifC06Zigzag8Row", "thorough", "every 8-vertex sequence on the centres of a row of four pixels (zig-zags of every period, repeated runs): no panic, with and without keep-points-and-lines"+timeBoxed, "n=8, 4x1 px window, pixel centres, id {0}", "ran"),
			{Harness: "VerifC06KmpChain", Pkg: "snap", Mode: "math", Tiers: "both", Internal: true, Covers: []string{"chain"},
				Desc: "O-2 (chain level): kmpDeduplicate run directly on every sequence of 3..12 point names from an alphabet of 5 with no two equal neighbours (cyclically), which is every routed chain of that size: no panic, no index out of range, budget respected; a counterexample is replayed through SnapPolygon on a polygon whose vertices are pixel centres in convex position and is reported only if it panics there", Bounds: "chain length 3..12, 5 distinct points, names symbolic"},
			{Harness: "VerifC06KmpChainLong", Pkg: "snap", Mode: "math", Tiers: "thorough", Internal: true, Covers: []string{"chain"},
				Desc: "same for chains of up to 16 points" + timeBoxed, Bounds: "chain length 3..16, 5 distinct points, names symbolic"},
			pipeObl("VerifC06Zigzag6Square", "both", "every 6-vertex sequence on the centres of a 2x2 block (zig-zags, spikes, repeated vertices): no panic, with and without keep-points-and-lines", "n=6, 2x2 px window, pixel centres, id {0}", "ran"),
			pipeObl("VerifC06Zigzag7Square", "thorough", "every 7-vertex sequence on the centres of a 2x2 block"+timeBoxed, "n=7, 2x2 px window, pixel centres, id {0}", "ran"),
			pipeObl("VerifC06Ring5Centre", "thorough", "any 5-vertex ring on pixel centres", "n=5, 3x3 px window, pixel centres, ids {0,1}", "ran"),
			pipeObl("VerifC06Hole", "thorough", "any shell + hole of 3 vertices each", "3+3 vertices, 2x2 px window, sub-pixel positions {0,1/2}, id {0}", "ran"),
		}}
}

func specC07() *PropSpec {
	mo := pipeObl("VerifC07MapOrder", "both", "two executions, the second with a nondeterministic iteration order of every map range (forward/reversed, at most one reversed range per path)", "n=3 (any ring), 2x2 px window, pixel centres, ids {0,1}, flags none and keep+reverse", "twice")
	mo3 := pipeObl("VerifC07MapOrderEdgy", "thorough", "same on pixel borders/corners/centres (time-boxed)", "n=3, 2x2 px window, sub-pixel positions {0,1/2}, ids {0,1}; time box 20 min", "twice")
	mo3.DeadlineSec = 1200
	mo2 := pipeObl("VerifC07MapOrderEdgy4", "thorough", "same for any 4-vertex ring on pixel centres, up to two reversed ranges per path", "n=4, 2x2 px window, pixel centres, ids {0,1}", "twice")
	mo2.MapOrderBudget = 2
	mo2.DeadlineSec = 1200
	return &PropSpec{ID: "C07", NeedsGen: true, Assumptions: pipeAssumptions,
		Outside: append([]string{"map iteration orders other than forward/reversed insertion order per range execution; more reversed ranges per path than stated", "goroutine scheduling (SnapPolygon starts no goroutines)"}, pipeOutside...),
		Obligations: []Obligation{
			mo, func() Obligation {
				o := pipeObl("VerifC07MapOrderThin5", "thorough", "any 5-vertex ring in a thin window under nondeterministic map order (time-boxed)", "n=5, window of 2x1 pixels, sub-pixel positions {1/4,3/4}, ids {0,1}", "twice")
				return o
			}(), pipeObl("VerifC07MapOrder4", "both", "same for any 4-vertex ring on pixel centres with default flags", "n=4, 2x2 px window, pixel centres, ids {0,1}", "twice"), mo2, mo3,
			{Harness: "VerifMatchInners", Pkg: "snap", Mode: "math", Tiers: "both", Internal: true, Covers: []string{"matched", "realistic-configuration"}, MapOrderBudget: 3,
				Desc: "hole matching on catalogues of shells (nested, overlapping with equal area, touching, disjoint; 2-3 at a time, every order) and holes (every start vertex): attached exactly once, to a shell containing it, the smallest such; independent of map iteration order", Bounds: "7 shells x 7 holes catalogue, 2..3 shells, 1 hole"},
			pipeObl("VerifC07RingDirection", "both", "valid triangle given in either direction => identical result", "n=3, 2x2 px window, all sub-pixel positions (2^-10 px), id {0}, all flags", "both-directions"),
			func() Obligation {
				o := pipeObl("VerifC07RingDirectionHalf", "thorough", "valid ring of 3..4 vertices given in either direction, two levels (time-boxed)", "n=3..4, 2x2 px window, sub-pixel positions {1/4,3/4}, ids {0,1}, all flags; time box 20 min", "both-directions")
				o.DeadlineSec = 1200
				return o
			}(),
			pipeObl("VerifC07RingDirectionHole", "thorough", "square shell with triangular hole, any subset of rings reversed", "hole n=3 in 2x2 px window, positions {1/4,3/4}, id {0}", "both-directions"),
			pipeObl("VerifC07ReverseFlag", "both", "reverse flag only reverses every ring of 3+ vertices", "n=4 (any ring), 2x2 px window, pixel centres, ids {0,1}, keep on/off", "both-flags"),
			func() Obligation {
				o := pipeObl("VerifC07ReverseFlagEdgy", "thorough", "same on pixel borders/corners/centres (time-boxed)", "n=3..4 (any ring), 2x2 px window, positions {0,1/2}, ids {0,1}; time box 20 min", "both-flags")
				o.DeadlineSec = 1200
				return o
			}(),
		}}
}

func specC08() *PropSpec {
	return &PropSpec{ID: "C08", NeedsGen: true, Assumptions: pipeAssumptions, Outside: append([]string{"built-in round grids (NetherlandsRDNewQuad): only the integer arithmetic lemma level, not the pipeline"}, pipeOutside...),
		Obligations: []Obligation{
			pipeObl("VerifC08Levels", "both", "result for a tile matrix alone == together with another one (twin executions), keys = requested ids", "n=3 (any ring), window of 2x1 pixels, sub-pixel positions {0,1/2}, pairs {0,1},{0,2},{1,2}, default flags", "compared"),
			pipeObl("VerifC08Levels2x2", "thorough", "same in a 2x2-pixel window", "n=3 (any ring), 2x2 px window, sub-pixel positions {0,1/2}, pairs {0,1},{0,2},{1,2}", "compared"),
			pipeObl("VerifC08LevelsAll", "thorough", "same with all four flag combinations and the pair {1,0}", "n=3 (any ring), 2x2 px window, sub-pixel positions {0,1/2}", "compared"),
			pipeObl("VerifC08ThinShellHole", "both", "template: thin shell collapsing at tile matrix 0 only, with a triangular hole", "shell 4 + hole 3 vertices in pixels (7,7),(8,7), corner positions jittering on the 1/8 px lattice (valid by construction), pairs {0,1},{1,0},{1,2}", "compared"),
			pipeObl("VerifC08Thin4Fine", "thorough", "any 4-vertex ring in a thin window, pair {1,2}", "n=4, window of 2x1 pixels, sub-pixel positions {1/4,3/4}, ids {1,2}", "compared"),
			pipeObl("VerifC08Thin4", "both", "any 4-vertex ring in a thin window, pair {0,1}", "n=4, window of 2x1 pixels, sub-pixel positions {1/4,3/4}, ids {0,1}", "compared"),
			pipeObl("VerifC08LevelsEdgy4", "thorough", "same for any 4-vertex ring on pixel centres", "n=4, 2x2 px window, pixel centres", "compared"),
			func() Obligation {
				o := pipeObl("VerifC08LevelsEighth", "thorough", "same for any 3-vertex ring on the 1/8 px lattice (time-boxed)", "n=3, 2x2 px window, 1/8 px lattice; time box 20 min", "compared")
				o.DeadlineSec = 1200
				return o
			}(),
		}}
}

func specC18() *PropSpec {
	return &PropSpec{ID: "C18", NeedsGen: true, Assumptions: pipeAssumptions, Outside: pipeOutside,
		Obligations: []Obligation{
			pipeObl("VerifC18Tri2x2", "both", "valid triangle, routed boundary visits no centre more than twice: every returned edge is a routed edge or straight run, holes in shell, signed area preserved", "n=3, 2x2 px window, all sub-pixel positions, id {0}, reverse on/off", "premise-holds"),
			pipeObl("VerifC18Tri2x2L2", "thorough", "same with two levels", "n=3, 2x2 px window, all sub-pixel positions, ids {0,1}", "premise-holds"),
			{Harness: "VerifMatchInners", Pkg: "snap", Mode: "math", Tiers: "both", Internal: true, Covers: []string{"matched", "realistic-configuration"}, MapOrderBudget: 3,
				Desc: "hole matching on catalogues of shells (nested, overlapping with equal area, touching, disjoint; 2-3 at a time, every order) and holes (every start vertex): attached exactly once, to a shell containing it, the smallest such; independent of map iteration order", Bounds: "7 shells x 7 holes catalogue, 2..3 shells, 1 hole"},
			pipeObl("VerifC18Quad2x2Half", "thorough", "valid quadrilateral on the half lattice", "n=4, 2x2 px window, positions {1/4,3/4}, ids {0,1}", "premise-holds", "collapsing"),
			pipeObl("VerifC18Pent3x3Centre", "thorough", "valid pentagon on pixel centres", "n=5, 3x3 px window, pixel centres, id {0}", "premise-holds"),
			pipeObl("VerifC18Pent2x2Half", "thorough", "valid pentagon on the half lattice (thin bands with a closing slit, pinched necks)"+timeBoxed, "n=5, 2x2 px window, positions {1/4,3/4}, id {0}", "premise-holds", "collapsing"),
			pipeObl("VerifC18ThinValid5", "thorough", "valid pentagon in a thin window, both tile matrices"+timeBoxed, "n=5, window of 2x1 pixels, positions {1/4,3/4}, ids {0,1}", "premise-holds", "collapsing"),
			pipeObl("VerifC18ThinValid6", "thorough", "valid hexagon in a thin window, both tile matrices"+timeBoxed, "n=6, window of 2x1 pixels, positions {1/4,3/4}, ids {0,1}", "premise-holds", "collapsing"),
			pipeObl("VerifC18Hex2x2Half", "thorough", "valid hexagon on the half lattice"+timeBoxed, "n=6, 2x2 px window, positions {1/4,3/4}, id {0}", "premise-holds", "collapsing"),
		}}
}

func specC03() *PropSpec {
	return &PropSpec{ID: "C03", NeedsGen: true, Assumptions: pipeAssumptions, Outside: pipeOutside,
		Obligations: []Obligation{
			{Harness: "VerifC03CentresQuick", Pkg: "pointindex", Mode: "math", Tiers: "quick", Internal: true, Covers: []string{"centre"},
				Desc: "pixel extent/centre arithmetic for a symbolic pixel address; float centre within the reported deviation of the ideal centre", Bounds: "7 accepted built-in sets x deepest id {0,mid,max} x requested id {0,mid,deepest} (levels <= 32), every pixel address"},
			{Harness: "VerifC03CentresThorough", Pkg: "pointindex", Mode: "math", Tiers: "thorough", Internal: true, Covers: []string{"centre"},
				Desc: "same for every (deepest id, requested id) pair", Bounds: "7 accepted built-in sets x all (d,z) pairs with level <= 32, every pixel address"},
			pipeObl("VerifC03Levels", "both", "every returned coordinate of tile matrix z is exactly a pixel centre of level z+4 of the synthetic grid (id subsets {1},{0,1},{0,2},{0,1,2}; flags none and keep+reverse)", "n=3 (any ring), 2x2 px window, sub-pixel positions {0,1/2}", "checked"),
		}}
}

func specC14() *PropSpec {
	return &PropSpec{ID: "C14", NeedsGen: true,
		Assumptions: []string{"PointOfOrigin is non-nil (guaranteed by the decoder's required-validation; a nil origin is outside the property)", "tile matrix id 0 is present in the symbolic sets (IsQuadTree does not check where the ids start)"},
		Outside:     []string{"sets with more than 4 tile matrices (every condition is per matrix or per consecutive pair, so first/interior/last positions are all exercised)", "more than one position with malformed discrete fields at a time"},
		Obligations: []Obligation{
			{Harness: "VerifC14Symbolic", Pkg: "pointindex", Mode: "bits", Tiers: "both", Covers: []string{"accepted", "rejected"},
				Desc: "symbolic tile matrix set of 1..4 matrices: accepted => every quadtree condition; never panics", Bounds: "all 64-bit widths/heights, all float64 origins (NaN, Inf included), cell-size ratios from {2, 1.99, 2.01, just outside, 1, 4, 0.5, Inf, NaN} per pair, one position with free id string / corner / variable widths / id gap"},
			{Harness: "VerifC14SymbolicCells", Pkg: "pointindex", Mode: "bits", Tiers: "thorough", Covers: []string{"accepted", "rejected"}, DeadlineSec: 1200,
				Desc: "same with fully symbolic float64 cell sizes (IEEE division decided by the solver; time-boxed)", Bounds: "all float64 cell sizes; time box 20 min"},
			{Harness: "VerifC14BuiltIns", Pkg: "pointindex", Mode: "bits", Tiers: "both", Internal: true, Covers: []string{"builtin-accepted", "builtin-rejected"},
				Desc: "each of the 14 built-in sets: rejected, or accepted with pixel size = cell size/16 at every id (concrete evaluation through the interpreter)", Bounds: "14 built-in sets x all ids with level <= 32"},
		}}
}

func specC15() *PropSpec {
	return &PropSpec{ID: "C15", NeedsGen: true,
		Assumptions: []string{"amd64 float->uint conversion for in-range values (the code checks x < 0 and x >= width first)", "tms20's package initialiser (EPSG axis table, regular expressions) is executed by the interpreter; regular expressions are evaluated natively on concrete strings"},
		Outside:     []string{"interior points other than tile centres and points half a tile outside (points within a few ulp of a tile border can be misaddressed: DESIGN F6, not covered)", "tile columns/rows farther than 256 from the matrix borders in matrices wider than 16 tiles"},
		Obligations: []Obligation{
			{Harness: "VerifC15SmallMatrices", Pkg: "tms20", Mode: "bits", Tiers: "both", Covers: []string{"roundtrip"},
				Desc: "every tile of every matrix up to 16x16 tiles (ids 0..3) of every built-in set without variable widths: corner -> centre -> same tile; half a tile outside -> no tile", Bounds: "14 built-in sets, ids 0..3, all tiles"},
			{Harness: "VerifC15BorderTiles", Pkg: "tms20", Mode: "bits", Tiers: "both", Covers: []string{"roundtrip"},
				Desc: "border tiles of every larger matrix (8 lowest / highest columns in the first and last row, and vice versa), addresses case-split, evaluated concretely through the interpreter", Bounds: "all built-in sets x ids >= 4 x 64 border tiles"},
			{Harness: "VerifC15BorderSlicesQuick", Pkg: "tms20", Mode: "bits", Tiers: "thorough", Covers: []string{"roundtrip"}, TimeoutMs: 600000, DeadlineSec: 1200,
				Desc: "symbolic tile address (one axis) in slices of 32 columns/rows at the ends of one deep matrix of RD, WebMercator and CRS84, exact IEEE-754 semantics decided by the solver (time-boxed: these queries take minutes each)", Bounds: "3 sets x 1 matrix x 8 slices of 32 tiles; time box 20 min"},
			{Harness: "VerifC15BoundingBox", Pkg: "tms20", Mode: "bits", Tiers: "both", Covers: []string{"bbox"},
				Desc: "bounding box spans corner of tile (0,0) to corner of tile (width,height) in x,y order; ToNative accepts one past the end and rejects beyond", Bounds: "all built-in sets x all matrices without variable widths (concrete evaluation through the interpreter)"},
		}}
}

func specC10() *PropSpec {
	return &PropSpec{ID: "C10", NeedsGen: false,
		Assumptions: []string{"the pipeline is a Kahn process network (every channel has one sender and one receiver, no select, no shared mutable state between stages): its results do not depend on the schedule; the executor runs one canonical schedule (run until blocked, lowest goroutine id first)",
			"sync.WaitGroup and channels are modelled by the executor (the cut queries assume unbuffered channels and flag buffered ones); log/fmt calls are no-ops",
			"environment stub: runtime.GOMAXPROCS / runtime.NumCPU (not called by the unchanged code) return an arbitrary value in 1..4 that is an input of the path"},
		Outside: []string{"streams longer than 2 (quick) / 3 (thorough) features, more than 2 / 3 targets, multipolygons of more than 2 parts", "data races and runtime-level goroutine leaks"},
		Obligations: []Obligation{
			{Harness: "VerifC10Stream", Pkg: "processing", Mode: "math", Tiers: "quick", Covers: []string{"returned"},
				Desc: "all streams of up to 2 features (polygon / multipolygon of 1-2 parts / point) x 1-2 targets x every stub snapping outcome (absent, one, two polygons per polygon and tile matrix): each target receives exactly the expected features, in order, with original attributes and the geometry for its tile matrix", Bounds: "k<=2, targets<=2"},
			{Harness: "VerifC10StreamLong", Pkg: "processing", Mode: "math", Tiers: "thorough", Covers: []string{"returned"}, MaxPaths: 400000,
				Desc: "same for up to 3 features and 3 targets", Bounds: "k<=3, targets<=3"},
		}}
}

func specC11() *PropSpec {
	s := specC10()
	s.ID = "C11"
	for i := range s.Obligations {
		s.Obligations[i].Cuts = true
		s.Obligations[i].Desc += "; plus, per path, SMT queries over all consistent cuts of the synchronisation events: no reachable deadlock, ProcessFeatures cannot return while a goroutine is unfinished; Kahn premises checked on the log"
	}
	s.Outside = append(s.Outside, "schedules other than the canonical one are covered only through the Kahn-network argument, whose three structural premises are checked on the event log of every path", "races, goroutines alive after return in the real runtime, GOMAXPROCS effects")
	return s
}
