package main

// Symbolic interpreter for go/ssa: one Exec per explored path (re-execution from the harness entry).

import (
	"fmt"
	"go/constant"
	"go/token"
	"go/types"
	"math"
	"math/big"
	"os"
	"strings"

	"golang.org/x/tools/go/ssa"
)

type Mode int

const (
	ModeMath Mode = iota // Go ints as SMT Int with explicit wrap where needed; floats as exact rationals
	ModeBits             // Go ints as bit-vectors; floats as IEEE-754 terms
)

type Decision struct {
	Kind byte     // 'b' branch, 'c' concretisation
	Dir  bool     // branch direction / (value == Val)
	Val  *big.Int // concretisation candidate
}

type PathItem struct {
	Prefix []Decision
	Model  Model // may be nil: must be solved at start
}

type AssertResult struct {
	ID      string
	Status  string // discharged | violated | inconclusive
	Inputs  map[string]string
	Detail  string
	PathLen int
}

type PathResult struct {
	Status        string // ok | panic | budget | infeasible | inconclusive | unsupported
	Detail        string
	Asserts       []AssertResult
	Covers        []string
	Queries       int
	Steps         int
	Wraps         int
	InexactUse    int
	IfConv        int
	IfConvAborted int
	Inputs        map[string]string
	Notes         []string
	Emits         []string
	Decisions     int
}

type Exec struct {
	P      *Program
	tf     *TF
	solver *Solver
	mode   Mode

	prefix []Decision
	pos    int
	taken  []Decision
	model  Model
	inputs []*Term
	inKind map[string]string // input name -> kind (int,bool,f64,dyadic:<shift>)

	children []PathItem
	res      PathResult
	covers   map[string]bool
	notes    map[string]bool

	globals map[*ssa.Global]*Value
	inited  map[*ssa.Package]bool

	steps  int
	budget int
	depth  int

	sched *Sched

	verbose   bool
	needModel bool
	initing   *ssa.Package
	spec      int // >0 while evaluating a branch arm speculatively (if-conversion)
	inShadow  bool
	curFn     string

	decided   map[*Term]bool     // branch conditions already decided on this path
	notUnique map[*Term]bool     // terms known not to be determined by the path condition
	known     map[*Term]*big.Int // terms whose value is fixed by a concretisation on this path

	mapOrderMode int // 0 insertion order, 1 nondeterministic (fork forward/reversed), 2 reversed
	mapRev       int // reversed choices taken on this path
	mapRanges    int
	specFrame    *frame
	specLog      *[]storeRec
}

type targetPanic struct {
	v       Value
	runtime bool
}

type pathEnd struct {
	status string
	detail string
}

type frame struct {
	e         *Exec
	caller    *frame
	fn        *ssa.Function
	block     *ssa.BasicBlock
	prevBlock *ssa.BasicBlock
	env       map[ssa.Value]Value
	locals    []Value
	defers    []*deferred
	result    Value
	panicking bool
	panicVal  any
	phisDone  bool
}

type deferred struct {
	fn    Value
	args  []Value
	instr *ssa.Defer
}

func (e *Exec) end(status, detail string) {
	panic(pathEnd{status, detail})
}

func (e *Exec) unsupported(format string, args ...any) {
	e.end("unsupported", fmt.Sprintf(format, args...))
}

func (e *Exec) note(s string) {
	if !e.notes[s] {
		e.notes[s] = true
		e.res.Notes = append(e.res.Notes, s)
	}
}

func rtPanic(msg string) targetPanic {
	return targetPanic{v: Iface{T: types.Typ[types.String], V: "runtime error: " + msg}, runtime: true}
}

// ---------------------------------------------------------------- decisions

// live makes sure a model of the current path condition is available (paths queued after an "unknown" answer
// start without one).
func (e *Exec) live() {
	if !e.needModel {
		return
	}
	e.needModel = false
	r, err := e.solver.Check()
	e.res.Queries++
	switch r {
	case "sat":
		m, merr := e.solver.GetModel(e.inputs)
		if merr != nil {
			e.end("inconclusive", "no model for path prefix: "+merr.Error())
		}
		for k, v := range m {
			e.model[k] = v
		}
	case "unsat":
		e.end("infeasible", "path prefix unsatisfiable")
	default:
		d := "solver unknown on path prefix"
		if err != nil {
			d += ": " + err.Error()
		}
		e.end("inconclusive", d)
	}
}

func (e *Exec) evalBool(c *Term) bool {
	e.live()
	v, err := Eval(c, e.model)
	if err != nil {
		e.end("inconclusive", "model evaluation failed: "+err.Error())
	}
	return v.B
}

// decide picks the direction of a symbolic branch for this path and queues the alternative if feasible.
func (e *Exec) decide(c *Term) bool {
	if c.IsConst() {
		return c.BV_
	}
	if d, ok := e.decided[c]; ok {
		return d // this very condition was decided earlier on the path
	}
	if e.spec > 0 {
		panic(specAbort{"symbolic branch inside a speculative region"})
	}
	if e.pos < len(e.prefix) {
		d := e.prefix[e.pos]
		e.pos++
		if d.Kind != 'b' {
			e.end("inconclusive", "decision prefix mismatch (non-deterministic re-execution)")
		}
		e.assertPC(c, d.Dir)
		e.taken = append(e.taken, d)
		e.remember(c, d.Dir)
		return d.Dir
	}
	e.pos++
	dir := e.evalBool(c)
	other := c
	if dir {
		other = e.tf.Not(c)
	}
	r, m, err := e.solver.CheckWithVars(other, e.inputs)
	e.res.Queries++
	switch r {
	case "sat":
		e.children = append(e.children, PathItem{Prefix: appendDec(e.taken, Decision{Kind: 'b', Dir: !dir}), Model: m})
	case "unknown":
		// keep the branch: the child has to find its own model
		e.children = append(e.children, PathItem{Prefix: appendDec(e.taken, Decision{Kind: 'b', Dir: !dir}), Model: nil})
		_ = err
	}
	e.assertPC(c, dir)
	e.taken = append(e.taken, Decision{Kind: 'b', Dir: dir})
	e.remember(c, dir)
	return dir
}

func (e *Exec) remember(c *Term, dir bool) {
	e.decided[c] = dir
	e.decided[e.tf.Not(c)] = !dir
}

func appendDec(p []Decision, d Decision) []Decision {
	n := make([]Decision, len(p)+1)
	copy(n, p)
	n[len(p)] = d
	return n
}

func (e *Exec) assertPC(c *Term, dir bool) {
	if !dir {
		c = e.tf.Not(c)
	}
	e.solver.Assert(c)
}

// concretize forces a symbolic integer/bool term to a concrete value, forking over all feasible values.
func (e *Exec) concretize(t *Term) *big.Int {
	if t.IsConst() {
		if t.Sort == SBool {
			if t.BV_ {
				return big.NewInt(1)
			}
			return big.NewInt(0)
		}
		return t.IV
	}
	if t.Sort == SBool {
		if e.decide(t) {
			return big.NewInt(1)
		}
		return big.NewInt(0)
	}
	if e.spec > 0 {
		panic(specAbort{"concretisation inside a speculative region"})
	}
	for {
		var v *big.Int
		var cond *Term
		if e.pos < len(e.prefix) {
			d := e.prefix[e.pos]
			e.pos++
			if d.Kind != 'c' {
				e.end("inconclusive", "decision prefix mismatch (non-deterministic re-execution)")
			}
			cond = e.tf.Eq(t, e.constLike(t, d.Val))
			e.assertPC(cond, d.Dir)
			e.taken = append(e.taken, d)
			if d.Dir {
				e.known[t] = d.Val
				return d.Val
			}
			continue
		}
		e.pos++
		e.live()
		mv, err := Eval(t, e.model)
		if err != nil {
			e.end("inconclusive", "model evaluation failed: "+err.Error())
		}
		v = mv.I
		cond = e.tf.Eq(t, e.constLike(t, v))
		if cond.IsConst() && cond.BV_ {
			e.known[t] = v
			return v
		}
		r, m, _ := e.solver.CheckWithVars(e.tf.Not(cond), e.inputs)
		e.res.Queries++
		switch r {
		case "sat":
			e.children = append(e.children, PathItem{Prefix: appendDec(e.taken, Decision{Kind: 'c', Dir: false, Val: v}), Model: m})
		case "unknown":
			e.children = append(e.children, PathItem{Prefix: appendDec(e.taken, Decision{Kind: 'c', Dir: false, Val: v}), Model: nil})
		}
		e.assertPC(cond, true)
		e.taken = append(e.taken, Decision{Kind: 'c', Dir: true, Val: v})
		e.known[t] = v
		return v
	}
}

func (e *Exec) constLike(t *Term, v *big.Int) *Term {
	if t.Sort == SBV {
		return e.tf.BV(v, t.W)
	}
	return e.tf.Int(v)
}

// concInt concretises an integer value (symbolic or not) to its 64-bit pattern for type t.
func (e *Exec) concInt(v Value, t types.Type) uint64 {
	switch v := v.(type) {
	case uint64:
		return v
	case *Term:
		b := e.concretize(v)
		if v.Sort == SBV {
			if isSigned(t) {
				return uint64(toSigned(b, v.W).Int64())
			}
			return b.Uint64()
		}
		if b.Sign() < 0 {
			return uint64(b.Int64())
		}
		return b.Uint64()
	case bool:
		if v {
			return 1
		}
		return 0
	}
	panic(fmt.Sprintf("concInt: %T", v))
}

func (e *Exec) concBool(v Value) bool {
	switch v := v.(type) {
	case bool:
		return v
	case *Term:
		return e.decide(v)
	}
	panic(fmt.Sprintf("concBool: %T", v))
}

// concValue makes a value fully concrete (used for map keys and unsupported symbolic operations).
func (e *Exec) concValue(v Value, t types.Type) Value {
	switch x := v.(type) {
	case *Term:
		if x.Sort == SBool {
			return e.decide(x)
		}
		if x.Sort == SFP {
			e.unsupported("cannot concretise a symbolic IEEE float")
		}
		return e.concInt(x, t)
	case *Rat:
		if x.Inexact {
			e.res.InexactUse++
			e.end("inconclusive", "concretising an inexact float")
		}
		n := e.concretize(x.Num)
		f, _ := new(big.Rat).SetFrac(n, x.Den).Float64()
		return f
	case Array:
		var et types.Type
		if at, ok := typeUnder[*types.Array](t); ok {
			et = at.Elem()
		}
		c := make(Array, len(x))
		for i := range x {
			c[i] = e.concValue(x[i], et)
		}
		return c
	case Struct:
		c := make(Struct, len(x))
		st, ok := typeUnder[*types.Struct](t)
		for i := range x {
			var ft types.Type
			if ok {
				ft = st.Field(i).Type()
			}
			c[i] = e.concValue(x[i], ft)
		}
		return c
	case Iface:
		if x.T == nil {
			return x
		}
		return Iface{T: x.T, V: e.concValue(x.V, x.T)}
	}
	return v
}

// ---------------------------------------------------------------- harness API

func (e *Exec) declareInput(name string, s Sort, w int, lo, hi *big.Int, kind string) *Term {
	for _, in := range e.inputs {
		if in.Name == name {
			e.unsupported("duplicate nondet input name %q", name)
		}
	}
	t := e.tf.Var(name, s, w, lo, hi)
	e.solver.Declare(name, s, w)
	e.inputs = append(e.inputs, t)
	e.inKind[name] = kind
	if _, ok := e.model[name]; !ok {
		var mv MVal
		switch s {
		case SInt:
			mv.I = big.NewInt(0)
			if lo != nil && lo.Sign() > 0 {
				mv.I = lo
			}
			if hi != nil && hi.Sign() < 0 {
				mv.I = hi
			}
		case SBV:
			mv.I = big.NewInt(0)
		}
		e.model[name] = mv
	}
	if s == SInt {
		if lo != nil {
			e.solver.Assert(e.tf.mk("<=", SBool, 0, e.tf.Int(lo), t))
		}
		if hi != nil {
			e.solver.Assert(e.tf.mk("<=", SBool, 0, t, e.tf.Int(hi)))
		}
	}
	return t
}

func (e *Exec) assume(c Value) {
	switch c := c.(type) {
	case bool:
		if !c {
			e.end("infeasible", "assumption false")
		}
		return
	case *Term:
		if e.pos < len(e.prefix) {
			// replaying: the stored model satisfies it
			e.solver.Assert(c)
			e.remember(c, true)
			return
		}
		if e.evalBool(c) {
			e.solver.Assert(c)
			e.remember(c, true)
			return
		}
		r, m, _ := e.solver.CheckWithVars(c, e.inputs)
		e.res.Queries++
		switch r {
		case "sat":
			e.model = m
			e.solver.Assert(c)
			e.remember(c, true)
		case "unsat":
			e.end("infeasible", "assumption unsatisfiable on this path")
		default:
			e.end("inconclusive", "solver unknown on assumption")
		}
	}
}

func (e *Exec) inputSnapshot(m Model) map[string]string {
	out := map[string]string{}
	for _, in := range e.inputs {
		mv, ok := m[in.Name]
		if !ok {
			continue
		}
		switch in.Sort {
		case SBool:
			out[in.Name] = fmt.Sprint(mv.B)
		case SInt:
			out[in.Name] = mv.I.String()
		case SBV:
			if e.inKind[in.Name] == "int" {
				out[in.Name] = toSigned(new(big.Int).Mod(mv.I, pow2(in.W)), in.W).String()
			} else {
				out[in.Name] = mv.I.String()
			}
		case SFP:
			out[in.Name] = fmt.Sprintf("0x%016x", math.Float64bits(mv.F))
		}
	}
	return out
}

func (e *Exec) assertProp(c Value, id string) {
	ar := AssertResult{ID: id, PathLen: len(e.taken)}
	switch c := c.(type) {
	case bool:
		if c {
			ar.Status = "discharged"
		} else {
			e.live() // a path queued without a model may be infeasible: make sure it is not before reporting
			ar.Status = "violated"
			ar.Inputs = e.inputSnapshot(e.model)
		}
		e.res.Asserts = append(e.res.Asserts, ar)
		if !c {
			e.end("ok", "assertion violated (concrete)")
		}
		return
	case *Term:
		r, m, err := e.solver.CheckWithVars(e.tf.Not(c), e.inputs)
		e.res.Queries++
		switch r {
		case "unsat":
			ar.Status = "discharged"
		case "sat":
			ar.Status = "violated"
			ar.Inputs = e.inputSnapshot(m)
		default:
			ar.Status = "inconclusive"
			if err != nil {
				ar.Detail = err.Error()
			} else {
				ar.Detail = "solver answered unknown (timeout)"
			}
		}
		e.res.Asserts = append(e.res.Asserts, ar)
		// continue under the assumption that it holds
		if e.pos >= len(e.prefix) && !e.evalBool(c) {
			r2, m2, _ := e.solver.CheckWithVars(c, e.inputs)
			e.res.Queries++
			if r2 != "sat" {
				e.end("ok", "path ends: assertion cannot hold here")
			}
			e.model = m2
		}
		e.solver.Assert(c)
	}
}

// ---------------------------------------------------------------- running a path

func NewExec(p *Program, s *Solver, item PathItem) *Exec {
	e := &Exec{P: p, tf: NewTF(), solver: s, mode: p.Mode, prefix: item.Prefix, model: item.Model,
		inKind: map[string]string{}, covers: map[string]bool{}, notes: map[string]bool{}, known: map[*Term]*big.Int{}, decided: map[*Term]bool{}, notUnique: map[*Term]bool{},
		globals: map[*ssa.Global]*Value{}, inited: map[*ssa.Package]bool{}, budget: p.Budget, verbose: p.Verbose}
	return e
}

// Run executes the harness entry along this path.
func (e *Exec) Run(entry *ssa.Function) (res PathResult, children []PathItem) {
	e.solver.Push()
	defer e.solver.Pop()
	e.needModel = e.model == nil
	if e.needModel {
		e.model = Model{}
	}
	defer func() {
		r := recover()
		switch r := r.(type) {
		case nil:
			if e.res.Status == "" {
				e.res.Status = "ok"
			}
		case pathEnd:
			e.res.Status, e.res.Detail = r.status, r.detail
		case targetPanic:
			e.res.Status = "panic"
			e.res.Detail = goString(r.v)
			if e.pos >= len(e.prefix) {
				e.res.Inputs = e.inputSnapshot(e.model)
			}
		default:
			panic(r)
		}
		if e.needModel && (e.res.Status == "panic" || e.res.Status == "budget" || e.res.Status == "deadlock") {
			// the path was queued without a model (parent query unknown): confirm that it is feasible at all
			e.needModel = false
			chk, _ := e.solver.Check()
			e.res.Queries++
			switch chk {
			case "sat":
				if m, merr := e.solver.GetModel(e.inputs); merr == nil {
					e.model = m
					e.res.Inputs = e.inputSnapshot(m)
				} else {
					e.res.Status, e.res.Detail = "inconclusive", "no model for a path that ended in "+e.res.Status
				}
			case "unsat":
				e.res.Status, e.res.Detail = "infeasible", "path prefix unsatisfiable"
			default:
				e.res.Status, e.res.Detail = "inconclusive", "feasibility of a path that ended abnormally could not be decided"
			}
		}
		for c := range e.covers {
			e.res.Covers = append(e.res.Covers, c)
		}
		e.res.Steps = e.steps
		e.res.Decisions = len(e.taken)
		if e.res.Status == "panic" || e.res.Status == "budget" || e.res.Status == "deadlock" {
			if e.res.Inputs == nil {
				e.res.Inputs = e.inputSnapshot(e.model)
			}
		}
		res, children = e.res, e.children
	}()
	if e.needModel && len(e.prefix) > 0 {
		e.note("path started without a model (parent query was unknown)")
	}
	e.callFn(nil, entry, nil, nil)
	return
}

func (e *Exec) callFn(caller *frame, fn *ssa.Function, args []Value, env []Value) Value {
	if fn == nil {
		panic(rtPanic("invalid memory address or nil pointer dereference (nil func)"))
	}
	if sub, ok := e.P.Subst[fn]; ok {
		fn = sub
	}
	name := fn.String()
	if fn.Synthetic == "package initializer" && e.initing != fn.Pkg {
		return nil // other packages are initialised lazily, on first access to one of their globals
	}
	if fn.Parent() == nil {
		if v, ok := e.intrinsic(caller, fn, name, args); ok {
			return v
		}
	}
	if fn.Blocks == nil {
		e.unsupported("no body for function %s", name)
	}
	if fn.TypeParams().Len() > 0 && len(fn.TypeArgs()) == 0 {
		e.unsupported("uninstantiated generic function %s", name)
	}
	e.depth++
	if e.depth > 400 {
		e.end("budget", "call depth exceeded")
	}
	fr := &frame{e: e, caller: caller, fn: fn, env: make(map[ssa.Value]Value, 16)}
	fr.block = fn.Blocks[0]
	fr.locals = make([]Value, len(fn.Locals))
	for i, l := range fn.Locals {
		fr.locals[i] = zero(deref(l.Type()))
		fr.env[l] = &fr.locals[i]
	}
	for i, p := range fn.Params {
		fr.env[p] = args[i]
	}
	for i, fv := range fn.FreeVars {
		fr.env[fv] = env[i]
	}
	for fr.block != nil {
		e.runFrame(fr)
	}
	e.depth--
	return fr.result
}

func deref(t types.Type) types.Type {
	if p, ok := t.Underlying().(*types.Pointer); ok {
		return p.Elem()
	}
	panic("deref of non-pointer " + t.String())
}

func (e *Exec) runFrame(fr *frame) {
	defer func() {
		if fr.block == nil {
			return
		}
		r := recover()
		if _, isEnd := r.(pathEnd); isEnd {
			panic(r)
		}
		if _, isTP := r.(targetPanic); !isTP {
			panic(r) // interpreter bug
		}
		fr.panicking = true
		fr.panicVal = r
		e.runDefers(fr)
		fr.block = fr.fn.Recover
		if fr.block == nil {
			// recovered without named results: return zero value
			fr.result = zeroResult(fr.fn)
		}
	}()
	for {
		blk := fr.block
		// phis
		i := 0
		if fr.phisDone {
			fr.phisDone = false
			for i < len(blk.Instrs) {
				if _, ok := blk.Instrs[i].(*ssa.Phi); !ok {
					break
				}
				i++
			}
		} else if len(blk.Instrs) > 0 {
			if _, ok := blk.Instrs[0].(*ssa.Phi); ok {
				predIdx := -1
				for k, p := range blk.Preds {
					if p == fr.prevBlock {
						predIdx = k
						break
					}
				}
				var tmp []Value
				for ; i < len(blk.Instrs); i++ {
					phi, ok := blk.Instrs[i].(*ssa.Phi)
					if !ok {
						break
					}
					tmp = append(tmp, fr.get(phi.Edges[predIdx]))
				}
				for k := 0; k < i; k++ {
					fr.env[blk.Instrs[k].(*ssa.Phi)] = tmp[k]
				}
			}
		}
		jumped := false
		for ; i < len(blk.Instrs); i++ {
			e.steps++
			if e.steps > e.budget {
				e.end("budget", fmt.Sprintf("instruction budget %d exceeded in %s", e.budget, fr.fn))
			}
			switch e.visit(fr, blk.Instrs[i]) {
			case kReturn:
				return
			case kJump:
				jumped = true
			}
			if jumped {
				break
			}
		}
		if !jumped {
			panic("block fell through: " + blk.String())
		}
	}
}

func zeroResult(fn *ssa.Function) Value {
	res := fn.Signature.Results()
	switch res.Len() {
	case 0:
		return nil
	case 1:
		return zero(res.At(0).Type())
	}
	return zero(res)
}

func (e *Exec) runDefers(fr *frame) {
	for len(fr.defers) > 0 {
		d := fr.defers[len(fr.defers)-1]
		fr.defers = fr.defers[:len(fr.defers)-1]
		func() {
			ok := false
			defer func() {
				if !ok {
					r := recover()
					if _, isEnd := r.(pathEnd); isEnd {
						panic(r)
					}
					if _, isTP := r.(targetPanic); !isTP {
						panic(r)
					}
					fr.panicking = true
					fr.panicVal = r
				}
			}()
			e.call(fr, d.fn, d.args)
			ok = true
		}()
	}
	if fr.panicking {
		panic(fr.panicVal)
	}
}

type cont int

const (
	kNext cont = iota
	kReturn
	kJump
)

func (fr *frame) get(v ssa.Value) Value {
	switch v := v.(type) {
	case *ssa.Const:
		return fr.e.constValue(v)
	case *ssa.Global:
		return fr.e.global(v)
	case *ssa.Function:
		return v
	case *ssa.Builtin:
		return v
	case nil:
		return nil
	}
	if r, ok := fr.env[v]; ok {
		if t, isT := r.(*Term); isT && len(fr.e.known) > 0 {
			if kv, ok := fr.e.known[t]; ok {
				c := fr.e.termToConcrete(fr.e.constLike(t, kv), v.Type())
				fr.env[v] = c
				return c
			}
		}
		return r
	}
	panic(fmt.Sprintf("get: no value for %T %v in %s", v, v.Name(), fr.fn))
}

func (e *Exec) constValue(c *ssa.Const) Value {
	t := c.Type()
	if c.Value == nil {
		if tp, ok := t.(*types.TypeParam); ok {
			_ = tp
			e.unsupported("const of type parameter")
		}
		return zero(t)
	}
	if b, ok := under(t).(*types.Basic); ok {
		switch {
		case b.Info()&types.IsBoolean != 0:
			return constant.BoolVal(c.Value)
		case b.Info()&types.IsInteger != 0:
			if b.Info()&types.IsUnsigned != 0 {
				u, _ := constant.Uint64Val(constant.ToInt(c.Value))
				return normConcrete(u, t)
			}
			i, _ := constant.Int64Val(constant.ToInt(c.Value))
			return normConcrete(uint64(i), t)
		case b.Info()&types.IsFloat != 0:
			f, _ := constant.Float64Val(c.Value)
			return f
		case b.Info()&types.IsString != 0:
			if c.Value.Kind() == constant.String {
				return constant.StringVal(c.Value)
			}
			i, _ := constant.Int64Val(c.Value)
			return string(rune(i))
		}
	}
	e.unsupported("constant of type %v", t)
	return nil
}

func (e *Exec) global(g *ssa.Global) *Value {
	if p, ok := e.globals[g]; ok {
		return p
	}
	e.initPackage(g.Pkg)
	if p, ok := e.globals[g]; ok {
		return p
	}
	v := zero(deref(g.Type()))
	e.globals[g] = &v
	return &v
}

// initPackage allocates the globals of a package and runs its synthetic init function
// (calls to other packages' init functions are skipped; they are initialised lazily the same way).
func (e *Exec) initPackage(pkg *ssa.Package) {
	if pkg == nil || e.inited[pkg] {
		return
	}
	e.inited[pkg] = true
	for _, m := range pkg.Members {
		if g, ok := m.(*ssa.Global); ok {
			if _, ok := e.globals[g]; !ok {
				v := zero(deref(g.Type()))
				e.globals[g] = &v
			}
		}
	}
	if !e.P.InitOK(pkg.Pkg.Path()) {
		return
	}
	if f := pkg.Func("init"); f != nil && f.Blocks != nil {
		saved, savedInit := e.steps, e.initing
		e.initing = pkg
		e.callFn(nil, f, nil, nil)
		e.steps, e.initing = saved, savedInit
	}
}

func (e *Exec) visit(fr *frame, instr ssa.Instruction) cont {
	e.curFn = fr.fn.String()
	switch instr := instr.(type) {
	case *ssa.DebugRef:
	case *ssa.UnOp:
		fr.env[instr] = e.unop(fr, instr, fr.get(instr.X))
	case *ssa.BinOp:
		x, y := fr.get(instr.X), fr.get(instr.Y)
		r := e.binop(instr.Op, instr.X.Type(), instr.Y.Type(), x, y)
		if e.P.Shadow {
			e.shadowBin(instr.Op, instr.X.Type(), instr.Y.Type(), instr.Type(), x, y, r)
		}
		fr.env[instr] = r
	case *ssa.Call:
		fn, args := e.prepareCall(fr, &instr.Call)
		fr.env[instr] = e.call(fr, fn, args)
	case *ssa.ChangeInterface:
		fr.env[instr] = fr.get(instr.X)
	case *ssa.ChangeType:
		fr.env[instr] = fr.get(instr.X)
	case *ssa.Convert:
		x := fr.get(instr.X)
		r := e.conv(instr.Type(), instr.X.Type(), x)
		if e.P.Shadow {
			e.shadowConv(instr.Type(), instr.X.Type(), x, r)
		}
		fr.env[instr] = r
	case *ssa.MultiConvert:
		fr.env[instr] = e.conv(instr.Type(), instr.X.Type(), fr.get(instr.X))
	case *ssa.SliceToArrayPointer:
		s := fr.get(instr.X).(Slice)
		n := int(deref(instr.Type()).Underlying().(*types.Array).Len())
		if len(s.A) < n {
			panic(rtPanic("cannot convert slice to array pointer: length too short"))
		}
		e.unsupported("SliceToArrayPointer")
	case *ssa.MakeInterface:
		fr.env[instr] = Iface{T: instr.X.Type(), V: fr.get(instr.X)}
	case *ssa.Extract:
		fr.env[instr] = fr.get(instr.Tuple).(Tuple)[instr.Index]
	case *ssa.Slice:
		fr.env[instr] = e.sliceOp(fr, instr)
	case *ssa.Return:
		switch len(instr.Results) {
		case 0:
		case 1:
			fr.result = fr.get(instr.Results[0])
		default:
			res := make(Tuple, len(instr.Results))
			for i, r := range instr.Results {
				res[i] = fr.get(r)
			}
			fr.result = res
		}
		fr.block = nil
		return kReturn
	case *ssa.RunDefers:
		e.runDefers(fr)
	case *ssa.Panic:
		panic(targetPanic{v: fr.get(instr.X)})
	case *ssa.Send:
		e.chanSend(fr.get(instr.Chan).(*Chan), fr.get(instr.X))
	case *ssa.Store:
		p := fr.get(instr.Addr).(*Value)
		if p == nil {
			panic(rtPanic("invalid memory address or nil pointer dereference"))
		}
		if e.spec > 0 && fr == e.specFrame {
			*e.specLog = append(*e.specLog, storeRec{p: p, old: *p, t: instr.Val.Type()})
		}
		*p = copyVal(fr.get(instr.Val))
	case *ssa.If:
		cv := fr.get(instr.Cond)
		if ct, isT := cv.(*Term); isT && !ct.IsConst() {
			if e.spec == 0 {
				if e.tryIfConvert(fr, ct) {
					return kJump
				}
			} else if !e.P.NoIfConv {
				// inside a speculative arm (a pure callee): must convert or the whole speculation is abandoned
				e.convertInFrame(fr, ct)
				return kJump
			}
		}
		succ := 1
		if e.concBool(cv) {
			succ = 0
		}
		fr.prevBlock, fr.block = fr.block, fr.block.Succs[succ]
		return kJump
	case *ssa.Jump:
		fr.prevBlock, fr.block = fr.block, fr.block.Succs[0]
		return kJump
	case *ssa.Defer:
		fn, args := e.prepareCall(fr, &instr.Call)
		fr.defers = append(fr.defers, &deferred{fn: fn, args: args, instr: instr})
	case *ssa.Go:
		fn, args := e.prepareCall(fr, &instr.Call)
		e.goStart(fr, fn, args)
	case *ssa.MakeChan:
		fr.env[instr] = e.makeChan(int(e.concInt(fr.get(instr.Size), types.Typ[types.Int])))
	case *ssa.Alloc:
		var addr *Value
		if instr.Heap {
			addr = new(Value)
			fr.env[instr] = addr
		} else {
			addr = fr.env[instr].(*Value)
			if e.spec > 0 && fr == e.specFrame {
				*e.specLog = append(*e.specLog, storeRec{p: addr, old: *addr, t: deref(instr.Type())})
			}
		}
		*addr = zero(deref(instr.Type()))
	case *ssa.MakeSlice:
		n := int(int64(e.concInt(fr.get(instr.Len), types.Typ[types.Int])))
		c := int(int64(e.concInt(fr.get(instr.Cap), types.Typ[types.Int])))
		if n < 0 || c < n {
			panic(rtPanic("makeslice: len out of range"))
		}
		if c > 1<<24 {
			e.unsupported("makeslice with capacity %d", c)
		}
		el := instr.Type().Underlying().(*types.Slice).Elem()
		a := make([]Value, c)
		for i := range a {
			a[i] = zero(el)
		}
		fr.env[instr] = Slice{A: a[:n]}
	case *ssa.MakeMap:
		fr.env[instr] = NewMap()
	case *ssa.Range:
		fr.env[instr] = e.rangeIter(fr.get(instr.X), instr.X.Type())
	case *ssa.Next:
		fr.env[instr] = e.next(fr.get(instr.Iter), instr)
	case *ssa.FieldAddr:
		p := fr.get(instr.X).(*Value)
		if p == nil {
			panic(rtPanic("invalid memory address or nil pointer dereference"))
		}
		fr.env[instr] = &(*p).(Struct)[instr.Field]
	case *ssa.Field:
		fr.env[instr] = fr.get(instr.X).(Struct)[instr.Field]
	case *ssa.IndexAddr:
		x := fr.get(instr.X)
		switch x := x.(type) {
		case Slice:
			i := e.indexFor(fr.get(instr.Index), instr.Index.Type(), len(x.A))
			fr.env[instr] = &x.A[i]
		case *Value:
			if x == nil {
				panic(rtPanic("invalid memory address or nil pointer dereference"))
			}
			arr := (*x).(Array)
			i := e.indexFor(fr.get(instr.Index), instr.Index.Type(), len(arr))
			fr.env[instr] = &arr[i]
		default:
			panic(fmt.Sprintf("IndexAddr on %T", x))
		}
	case *ssa.Index:
		x := fr.get(instr.X)
		switch x := x.(type) {
		case Array:
			fr.env[instr] = e.indexRead([]Value(x), fr.get(instr.Index), instr.Index.Type())
		case string:
			i := e.indexFor(fr.get(instr.Index), instr.Index.Type(), len(x))
			fr.env[instr] = uint64(x[i])
		default:
			panic(fmt.Sprintf("Index on %T", x))
		}
	case *ssa.Lookup:
		fr.env[instr] = e.lookup(instr, fr.get(instr.X), fr.get(instr.Index))
	case *ssa.MapUpdate:
		m := fr.get(instr.Map).(*Map)
		if m == nil {
			panic(rtPanic("assignment to entry in nil map"))
		}
		kt := instr.Map.Type().Underlying().(*types.Map).Key()
		kv := fr.get(instr.Key)
		if e.P.SymMaps && (containsSym(kv) || m.nsym > 0) {
			if en := e.mapFind(m, kv, kt); en != nil {
				en.V = copyVal(fr.get(instr.Value))
			} else if containsSym(kv) {
				m.entries = append(m.entries, &mapEntry{K: copyVal(kv), V: copyVal(fr.get(instr.Value)), sym: true})
				m.n++
				m.nsym++
			} else {
				m.Set(keyString(kv), copyVal(kv), copyVal(fr.get(instr.Value)))
			}
			break
		}
		k := e.concValue(kv, kt)
		m.Set(keyString(k), copyVal(k), copyVal(fr.get(instr.Value)))
	case *ssa.TypeAssert:
		fr.env[instr] = e.typeAssert(instr, fr.get(instr.X).(Iface))
	case *ssa.MakeClosure:
		var b []Value
		for _, x := range instr.Bindings {
			b = append(b, fr.get(x))
		}
		fr.env[instr] = &Closure{Fn: instr.Fn.(*ssa.Function), Env: b}
	case *ssa.Select:
		fr.env[instr] = e.selectOp(fr, instr)
	default:
		e.unsupported("instruction %T in %s", instr, fr.fn)
	}
	return kNext
}

// indexFor checks an index against a length (forking on symbolic indices) and returns it concretely.
func (e *Exec) indexFor(idx Value, t types.Type, n int) int {
	i := int64(e.concInt(idx, t))
	if !isSigned(t) && uint64(i) >= uint64(n) || i < 0 || i >= int64(n) {
		panic(rtPanic(fmt.Sprintf("index out of range [%d] with length %d", i, n)))
	}
	return int(i)
}

// indexRead reads a[idx]; a symbolic index over scalar elements becomes an ite chain.
func (e *Exec) indexRead(a []Value, idx Value, t types.Type) Value {
	return copyVal(a[e.indexFor(idx, t, len(a))])
}

func (e *Exec) sliceOp(fr *frame, instr *ssa.Slice) Value {
	x := fr.get(instr.X)
	geti := func(v ssa.Value, def int) int {
		if v == nil {
			return def
		}
		return int(int64(e.concInt(fr.get(v), v.Type())))
	}
	switch x := x.(type) {
	case string:
		lo, hi := geti(instr.Low, 0), geti(instr.High, len(x))
		if lo < 0 || hi < lo || hi > len(x) {
			panic(rtPanic(fmt.Sprintf("slice bounds out of range [%d:%d] with length %d", lo, hi, len(x))))
		}
		return x[lo:hi]
	case Slice:
		lo, hi := geti(instr.Low, 0), geti(instr.High, len(x.A))
		mx := geti(instr.Max, cap(x.A))
		if lo < 0 || hi < lo || mx < hi || mx > cap(x.A) {
			panic(rtPanic(fmt.Sprintf("slice bounds out of range [%d:%d:%d] with capacity %d", lo, hi, mx, cap(x.A))))
		}
		if x.Nil && hi == 0 {
			return Slice{Nil: true}
		}
		return Slice{A: x.A[lo:hi:mx]}
	case *Value:
		if x == nil {
			panic(rtPanic("invalid memory address or nil pointer dereference"))
		}
		arr := []Value((*x).(Array))
		lo, hi := geti(instr.Low, 0), geti(instr.High, len(arr))
		mx := geti(instr.Max, len(arr))
		if lo < 0 || hi < lo || mx < hi || mx > len(arr) {
			panic(rtPanic("slice bounds out of range"))
		}
		return Slice{A: arr[lo:hi:mx]}
	}
	panic(fmt.Sprintf("slice of %T", x))
}

func (e *Exec) lookup(instr *ssa.Lookup, x, idx Value) Value {
	switch x := x.(type) {
	case string:
		i := e.indexFor(idx, instr.Index.Type(), len(x))
		return uint64(x[i])
	case *Map:
		mt := instr.X.Type().Underlying().(*types.Map)
		if e.P.SymMaps && x != nil && (containsSym(idx) || x.nsym > 0) {
			var v Value
			en := e.mapFind(x, idx, mt.Key())
			if en != nil {
				v = copyVal(en.V)
			} else {
				v = zero(mt.Elem())
			}
			if instr.CommaOk {
				return Tuple{v, en != nil}
			}
			return v
		}
		k := e.concValue(idx, mt.Key())
		v, ok := x.Get(keyString(k))
		if !ok {
			v = zero(mt.Elem())
		}
		v = copyVal(v)
		if instr.CommaOk {
			return Tuple{v, ok}
		}
		return v
	}
	panic(fmt.Sprintf("lookup on %T", x))
}

// mapFind locates the entry for key k in a map that may hold symbolic keys: equality with every candidate entry is
// decided on the path (forking where both outcomes are feasible).
func (e *Exec) mapFind(m *Map, k Value, kt types.Type) *mapEntry {
	if !containsSym(k) {
		if i, ok := m.idx[keyString(k)]; ok {
			return m.entries[i]
		}
		for _, en := range m.entries {
			if en.sym && !en.deleted && e.concBool(e.equal(kt, k, en.K)) {
				return en
			}
		}
		return nil
	}
	for _, en := range m.entries {
		if !en.deleted && e.concBool(e.equal(kt, k, en.K)) {
			return en
		}
	}
	return nil
}

func (e *Exec) rangeIter(x Value, t types.Type) Value {
	switch x := x.(type) {
	case *Map:
		it := &mapIter{m: x}
		if x != nil {
			for _, en := range x.entries {
				if !en.deleted {
					it.order = append(it.order, en)
				}
			}
			it.order = e.mapOrder(it.order)
		}
		return it
	case string:
		return &strIter{s: x}
	}
	panic(fmt.Sprintf("range over %T", x))
}

// mapOrder chooses the iteration order of a map range. Default: insertion order.
// With MapOrder=="nondet" every range execution over >=2 entries forks between forward and reversed order
// (bounded by Program.MapOrderBudget deviations per path).
func (e *Exec) mapOrder(entries []*mapEntry) []*mapEntry {
	if len(entries) < 2 {
		return entries
	}
	rev := false
	switch e.mapOrderMode {
	case 2:
		rev = true
	case 1:
		if e.mapRev < e.P.MapOrderBudget {
			e.mapRanges++
			c := e.declareInput(fmt.Sprintf("maporder_%d", e.mapRanges), SBool, 0, nil, nil, "bool")
			rev = e.decide(c)
			if rev {
				e.mapRev++
			}
		}
	}
	if !rev {
		return entries
	}
	r := make([]*mapEntry, len(entries))
	for i := range entries {
		r[len(entries)-1-i] = entries[i]
	}
	return r
}

func (e *Exec) next(it Value, instr *ssa.Next) Value {
	switch it := it.(type) {
	case *mapIter:
		for it.pos < len(it.order) {
			en := it.order[it.pos]
			it.pos++
			if en.deleted {
				continue
			}
			return Tuple{true, copyVal(en.K), copyVal(en.V)}
		}
		return Tuple{false, nil, nil}
	case *strIter:
		if it.pos >= len(it.s) {
			return Tuple{false, uint64(0), uint64(0)}
		}
		for i, r := range it.s[it.pos:] {
			_ = i
			p := it.pos
			it.pos += len(string(r))
			return Tuple{true, uint64(p), uint64(r)}
		}
	}
	panic(fmt.Sprintf("next on %T", it))
}

func (e *Exec) typeAssert(instr *ssa.TypeAssert, x Iface) Value {
	ok := false
	var v Value
	if _, isIface := instr.AssertedType.Underlying().(*types.Interface); isIface {
		if x.T != nil {
			ok = types.Implements(x.T, instr.AssertedType.Underlying().(*types.Interface))
			if !ok {
				// pointer receiver method sets are covered by Implements on the dynamic type itself
			}
		}
		v = x
		if !ok {
			v = Iface{}
		}
	} else {
		ok = x.T != nil && types.Identical(x.T, instr.AssertedType)
		if ok {
			v = x.V
		} else {
			v = zero(instr.AssertedType)
		}
	}
	if instr.CommaOk {
		return Tuple{v, ok}
	}
	if !ok {
		panic(targetPanic{v: Iface{T: types.Typ[types.String], V: fmt.Sprintf("interface conversion: interface is %v, not %v", x.T, instr.AssertedType)}, runtime: true})
	}
	return v
}

func (e *Exec) prepareCall(fr *frame, c *ssa.CallCommon) (Value, []Value) {
	v := fr.get(c.Value)
	var args []Value
	var fn Value
	if c.Method == nil {
		fn = v
	} else {
		recv := v.(Iface)
		if recv.T == nil {
			panic(rtPanic("invalid memory address or nil pointer dereference (method on nil interface)"))
		}
		f := e.P.Prog.LookupMethod(recv.T, c.Method.Pkg(), c.Method.Name())
		if f == nil {
			e.unsupported("method %s not found for dynamic type %v", c.Method.Name(), recv.T)
		}
		fn = f
		args = append(args, recv.V)
	}
	for _, a := range c.Args {
		args = append(args, fr.get(a))
	}
	return fn, args
}

func (e *Exec) call(caller *frame, fn Value, args []Value) Value {
	switch fn := fn.(type) {
	case *ssa.Function:
		return e.callFn(caller, fn, args, nil)
	case *Closure:
		return e.callFn(caller, fn.Fn, args, fn.Env)
	case *ssa.Builtin:
		return e.callBuiltin(caller, fn, args)
	case NativeFunc:
		return fn(e, args)
	case nil:
		panic(rtPanic("invalid memory address or nil pointer dereference (nil func)"))
	}
	panic(fmt.Sprintf("cannot call %T", fn))
}

func (e *Exec) callBuiltin(caller *frame, fn *ssa.Builtin, args []Value) Value {
	switch fn.Name() {
	case "append":
		s := args[0].(Slice)
		if len(args) == 1 {
			return s
		}
		var add []Value
		switch a := args[1].(type) {
		case Slice:
			add = a.A
		case string:
			for i := 0; i < len(a); i++ {
				add = append(add, uint64(a[i]))
			}
		}
		if len(add) == 0 {
			return s
		}
		st := fn.Type().(*types.Signature).Params().At(0).Type()
		return e.appendSlice(s, add, st)
	case "copy":
		dst := args[0].(Slice)
		var src []Value
		switch a := args[1].(type) {
		case Slice:
			src = a.A
		case string:
			for i := 0; i < len(a); i++ {
				src = append(src, uint64(a[i]))
			}
		}
		n := len(dst.A)
		if len(src) < n {
			n = len(src)
		}
		tmp := make([]Value, n)
		for i := 0; i < n; i++ {
			tmp[i] = copyVal(src[i])
		}
		copy(dst.A, tmp)
		return uint64(n)
	case "len":
		switch x := args[0].(type) {
		case string:
			return uint64(len(x))
		case Slice:
			return uint64(len(x.A))
		case Array:
			return uint64(len(x))
		case *Value:
			return uint64(len((*x).(Array)))
		case *Map:
			return uint64(x.Len())
		case *Chan:
			if x == nil {
				return uint64(0)
			}
			return uint64(len(x.buf))
		}
	case "cap":
		switch x := args[0].(type) {
		case Slice:
			return uint64(cap(x.A))
		case Array:
			return uint64(len(x))
		case *Value:
			return uint64(len((*x).(Array)))
		case *Chan:
			return uint64(x.cap)
		}
	case "delete":
		m := args[0].(*Map)
		kt := fn.Type().(*types.Signature).Params().At(0).Type().Underlying().(*types.Map).Key()
		k := e.concValue(args[1], kt)
		m.Delete(keyString(k))
		return nil
	case "clear":
		switch x := args[0].(type) {
		case *Map:
			if x != nil {
				for k := range x.idx {
					x.Delete(k)
				}
			}
		case Slice:
			st := fn.Type().(*types.Signature).Params().At(0).Type().Underlying().(*types.Slice)
			for i := range x.A {
				x.A[i] = zero(st.Elem())
			}
		}
		return nil
	case "print", "println":
		return nil
	case "panic":
		panic(targetPanic{v: args[0]})
	case "recover":
		return e.doRecover(caller)
	case "close":
		e.chanClose(args[0].(*Chan))
		return nil
	case "min", "max":
		t := fn.Type().(*types.Signature).Params().At(0).Type()
		r := args[0]
		for _, a := range args[1:] {
			op := token.LSS
			if fn.Name() == "max" {
				op = token.GTR
			}
			c := e.binop(op, t, t, a, r)
			r = e.selectVal(c, a, r)
		}
		return r
	case "ssa:wrapnilchk":
		if p, ok := args[0].(*Value); ok && p == nil {
			panic(rtPanic("invalid memory address or nil pointer dereference (wrapnilchk)"))
		}
		return args[0]
	}
	e.unsupported("builtin %s(%T)", fn.Name(), args[0])
	return nil
}

// selectVal returns c ? a : b, merging scalars with ite and forking otherwise.
func (e *Exec) selectVal(c Value, a, b Value) Value {
	switch c := c.(type) {
	case bool:
		if c {
			return a
		}
		return b
	case *Term:
		at, aok := e.scalarTerm(a, b)
		bt, bok := e.scalarTerm(b, a)
		if aok && bok && at.Sort == bt.Sort {
			return e.tf.Ite(c, at, bt)
		}
		if e.decide(c) {
			return a
		}
		return b
	}
	panic("selectVal")
}

// scalarTerm lifts an integer/bool scalar to a term using the sort of its partner.
func (e *Exec) scalarTerm(v Value, partner Value) (*Term, bool) {
	switch v := v.(type) {
	case *Term:
		return v, true
	case bool:
		return e.tf.Bool(v), true
	case uint64:
		if p, ok := partner.(*Term); ok {
			if p.Sort == SBV {
				return e.tf.BV(new(big.Int).SetUint64(v), p.W), true
			}
			if p.Sort == SInt {
				// sign unknown here: callers use typed paths for ints; treat as signed 64-bit pattern
				return e.tf.Int64(int64(v)), true
			}
		}
	}
	return nil, false
}

func (e *Exec) doRecover(caller *frame) Value {
	if caller != nil && !caller.panicking && caller.caller != nil && caller.caller.panicking {
		caller.caller.panicking = false
		p := caller.caller.panicVal
		caller.caller.panicVal = nil
		if tp, ok := p.(targetPanic); ok {
			if iv, ok := tp.v.(Iface); ok {
				return iv
			}
			return Iface{T: types.Typ[types.String], V: goString(tp.v)}
		}
	}
	return Iface{}
}

// appendSlice implements append with the growth policy of the Go runtime (so aliasing matches the real program).
func (e *Exec) appendSlice(s Slice, add []Value, st types.Type) Value {
	n := len(s.A)
	newLen := n + len(add)
	cp := make([]Value, len(add))
	for i := range add {
		cp[i] = copyVal(add[i])
	}
	if newLen <= cap(s.A) {
		a := s.A[:newLen]
		copy(a[n:], cp)
		return Slice{A: a}
	}
	el := st.Underlying().(*types.Slice).Elem()
	newCap := growCap(newLen, cap(s.A), e.P.Sizes.Sizeof(el), !hasPointers(el))
	a := make([]Value, newLen, newCap)
	for i := 0; i < n; i++ {
		a[i] = s.A[i]
	}
	copy(a[n:], cp)
	full := a[:newCap]
	for i := newLen; i < newCap; i++ {
		full[i] = zero(el)
	}
	return Slice{A: a}
}

var classToSize = []int64{0, 8, 16, 24, 32, 48, 64, 80, 96, 112, 128, 144, 160, 176, 192, 208, 224, 240, 256, 288, 320, 352, 384, 416, 448, 480, 512, 576, 640, 704, 768, 896, 1024, 1152, 1280, 1408, 1536, 1792, 2048, 2304, 2688, 3072, 3200, 3456, 4096, 4864, 5376, 6144, 6528, 6784, 6912, 8192, 9472, 9728, 10240, 10880, 12288, 13568, 14336, 16384, 18432, 19072, 20480, 21760, 24576, 27264, 28672, 32768}

func roundupsize(size int64, noscan bool) int64 {
	req := size
	if req <= 32768-8 {
		if !noscan && req > 512 {
			req += 8
		}
		for _, c := range classToSize {
			if c >= req {
				return c - (req - size)
			}
		}
	}
	req += 8191
	return req &^ 8191
}

func growCap(newLen, oldCap int, elemSize int64, noscan bool) int {
	newcap := oldCap
	doublecap := newcap + newcap
	switch {
	case newLen > doublecap:
		newcap = newLen
	case oldCap < 256:
		newcap = doublecap
	default:
		for {
			newcap += (newcap + 3*256) >> 2
			if newcap >= newLen {
				break
			}
		}
	}
	if elemSize == 0 {
		return newcap
	}
	mem := roundupsize(int64(newcap)*elemSize, noscan)
	return int(mem / elemSize)
}

func hasPointers(t types.Type) bool {
	switch t := t.Underlying().(type) {
	case *types.Basic:
		return t.Kind() == types.String || t.Kind() == types.UnsafePointer
	case *types.Array:
		return t.Len() > 0 && hasPointers(t.Elem())
	case *types.Struct:
		for i := 0; i < t.NumFields(); i++ {
			if hasPointers(t.Field(i).Type()) {
				return true
			}
		}
		return false
	}
	return true
}

var _ = os.Stderr
var _ = strings.Contains
