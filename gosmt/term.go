package main

// SMT term DAG: construction with light simplification and interval tracking,
// printing to SMT-LIB2 and evaluation under a model (for concolic direction choice).

import (
	"fmt"
	"math"
	"math/big"
	"sort"
	"strings"
)

type Sort int

const (
	SBool Sort = iota
	SInt
	SBV
	SFP // float64
)

type Term struct {
	Op   string
	Sort Sort
	W    int // BV width
	Args []*Term
	IV   *big.Int // const value (Int / BV unsigned value)
	BV_  bool     // const bool
	FV   float64  // const fp
	Name string   // var
	P    [2]int   // extract hi,lo / extend amount in P[0]
	key  string
	id   int
	lo   *big.Int // interval (Int sort, or BV as unsigned) ; nil = unknown
	hi   *big.Int
}

func (t *Term) IsConst() bool { return t.Op == "const" }

type TF struct { // term factory (one per path execution)
	tab  map[string]*Term
	next int
}

func NewTF() *TF { return &TF{tab: map[string]*Term{}} }

func (f *TF) intern(t *Term) *Term {
	if t.Sort == SInt && t.Op != "const" && t.lo != nil && t.hi != nil && t.lo.Cmp(t.hi) == 0 {
		return f.Int(t.lo) // interval collapsed to a point: the value is determined
	}
	var sb strings.Builder
	sb.WriteString(t.Op)
	sb.WriteByte('|')
	switch t.Op {
	case "const":
		switch t.Sort {
		case SBool:
			fmt.Fprintf(&sb, "b%v", t.BV_)
		case SInt:
			sb.WriteString("i" + t.IV.String())
		case SBV:
			fmt.Fprintf(&sb, "v%d:%s", t.W, t.IV.String())
		case SFP:
			fmt.Fprintf(&sb, "f%x", math.Float64bits(t.FV))
		}
	case "var":
		fmt.Fprintf(&sb, "%d:%d:%s", t.Sort, t.W, t.Name)
	default:
		fmt.Fprintf(&sb, "%d:%d:%d:%d", t.Sort, t.W, t.P[0], t.P[1])
		for _, a := range t.Args {
			fmt.Fprintf(&sb, ",%d", a.id)
		}
	}
	k := sb.String()
	if o, ok := f.tab[k]; ok {
		return o
	}
	t.key = k
	f.next++
	t.id = f.next
	f.tab[k] = t
	return t
}

var (
	bigZero = big.NewInt(0)
	bigOne  = big.NewInt(1)
)

func pow2(n int) *big.Int { return new(big.Int).Lsh(bigOne, uint(n)) }

func (f *TF) Bool(b bool) *Term { return f.intern(&Term{Op: "const", Sort: SBool, BV_: b}) }
func (f *TF) Int(v *big.Int) *Term {
	c := new(big.Int).Set(v)
	return f.intern(&Term{Op: "const", Sort: SInt, IV: c, lo: c, hi: c})
}
func (f *TF) Int64(v int64) *Term { return f.Int(big.NewInt(v)) }
func (f *TF) BV(v *big.Int, w int) *Term {
	c := new(big.Int).Mod(v, pow2(w))
	return f.intern(&Term{Op: "const", Sort: SBV, W: w, IV: c, lo: c, hi: c})
}
func (f *TF) FP(v float64) *Term { return f.intern(&Term{Op: "const", Sort: SFP, FV: v}) }
func (f *TF) Var(name string, s Sort, w int, lo, hi *big.Int) *Term {
	return f.intern(&Term{Op: "var", Sort: s, W: w, Name: name, lo: lo, hi: hi})
}

func (f *TF) mk(op string, s Sort, w int, args ...*Term) *Term {
	return f.intern(&Term{Op: op, Sort: s, W: w, Args: args})
}

// ---------- Bool ----------

func (f *TF) Not(a *Term) *Term {
	if a.IsConst() {
		return f.Bool(!a.BV_)
	}
	if a.Op == "not" {
		return a.Args[0]
	}
	return f.mk("not", SBool, 0, a)
}

func (f *TF) And(a, b *Term) *Term {
	if a.IsConst() {
		if a.BV_ {
			return b
		}
		return a
	}
	if b.IsConst() {
		if b.BV_ {
			return a
		}
		return b
	}
	if a == b {
		return a
	}
	if r := f.wideEq(a, b); r != nil {
		return r
	}
	return f.mk("and", SBool, 0, a, b)
}

func (f *TF) Or(a, b *Term) *Term {
	if a.IsConst() {
		if a.BV_ {
			return a
		}
		return b
	}
	if b.IsConst() {
		if b.BV_ {
			return b
		}
		return a
	}
	if a == b {
		return a
	}
	if r := f.wideLt(a, b); r != nil {
		return r
	}
	if r := f.wideLt(b, a); r != nil {
		return r
	}
	return f.mk("or", SBool, 0, a, b)
}

// assume rewrites t under the assumption that condition c has truth value v (nested ites and occurrences of c).
func (f *TF) assume(t, c *Term, v bool, depth int) *Term {
	if t == c {
		return f.Bool(v)
	}
	if depth <= 0 || len(t.Args) == 0 {
		return t
	}
	switch t.Op {
	case "ite":
		cc := f.assume(t.Args[0], c, v, depth-1)
		if cc.IsConst() {
			if cc.BV_ {
				return f.assume(t.Args[1], c, v, depth-1)
			}
			return f.assume(t.Args[2], c, v, depth-1)
		}
		a, b := f.assume(t.Args[1], c, v, depth-1), f.assume(t.Args[2], c, v, depth-1)
		if cc == t.Args[0] && a == t.Args[1] && b == t.Args[2] {
			return t
		}
		return f.Ite(cc, a, b)
	case "not":
		a := f.assume(t.Args[0], c, v, depth-1)
		if a == t.Args[0] {
			return t
		}
		return f.Not(a)
	case "and", "or":
		a, b := f.assume(t.Args[0], c, v, depth-1), f.assume(t.Args[1], c, v, depth-1)
		if a == t.Args[0] && b == t.Args[1] {
			return t
		}
		if t.Op == "and" {
			return f.And(a, b)
		}
		return f.Or(a, b)
	case "+", "-", "*", "neg", "=", "<", "<=":
		changed := false
		args := make([]*Term, len(t.Args))
		for i, x := range t.Args {
			args[i] = f.assume(x, c, v, depth-1)
			if args[i] != x {
				changed = true
			}
		}
		if !changed {
			return t
		}
		switch t.Op {
		case "+":
			return f.Add(args[0], args[1])
		case "-":
			return f.Sub(args[0], args[1])
		case "*":
			return f.Mul(args[0], args[1])
		case "neg":
			return f.Neg(args[0])
		case "=":
			return f.Eq(args[0], args[1])
		case "<", "<=":
			if args[0].Sort == SInt {
				return f.Cmp(t.Op, args[0], args[1])
			}
		}
	}
	return t
}

func (f *TF) Ite(c, a, b *Term) *Term {
	if c.IsConst() {
		if c.BV_ {
			return a
		}
		return b
	}
	if a == b {
		return a
	}
	if c.Op == "not" {
		return f.Ite(c.Args[0], b, a)
	}
	a = f.assume(a, c, true, 6)
	b = f.assume(b, c, false, 6)
	if a == b {
		return a
	}
	if a.Sort == SBool {
		if a.IsConst() && b.IsConst() {
			if a.BV_ {
				return c
			}
			return f.Not(c)
		}
		if b.IsConst() {
			if b.BV_ {
				return f.Or(f.Not(c), a)
			}
			return f.And(c, a)
		}
		if a.IsConst() {
			if a.BV_ {
				return f.Or(c, b)
			}
			return f.And(f.Not(c), b)
		}
	}
	t := &Term{Op: "ite", Sort: a.Sort, W: a.W, Args: []*Term{c, a, b}}
	if a.lo != nil && b.lo != nil {
		t.lo = bmin(a.lo, b.lo)
	}
	if a.hi != nil && b.hi != nil {
		t.hi = bmax(a.hi, b.hi)
	}
	return f.intern(t)
}

func bmin(a, b *big.Int) *big.Int {
	if a.Cmp(b) <= 0 {
		return a
	}
	return b
}
func bmax(a, b *big.Int) *big.Int {
	if a.Cmp(b) >= 0 {
		return a
	}
	return b
}

func (f *TF) Eq(a, b *Term) *Term {
	if a == b {
		return f.Bool(true)
	}
	if a.IsConst() && b.IsConst() {
		switch a.Sort {
		case SBool:
			return f.Bool(a.BV_ == b.BV_)
		case SInt, SBV:
			return f.Bool(a.IV.Cmp(b.IV) == 0)
		}
	}
	if a.Sort == SBool {
		if a.IsConst() {
			a, b = b, a
		}
		if b.IsConst() {
			if b.BV_ {
				return a
			}
			return f.Not(a)
		}
	}
	if a.Sort == SInt || a.Sort == SBV {
		if a.hi != nil && b.lo != nil && a.hi.Cmp(b.lo) < 0 {
			return f.Bool(false)
		}
		if b.hi != nil && a.lo != nil && b.hi.Cmp(a.lo) < 0 {
			return f.Bool(false)
		}
	}
	if a.id > b.id {
		a, b = b, a
	}
	return f.mk("=", SBool, 0, a, b)
}

// ---------- Int ----------

// splitConst views t as base + k (k constant); base may be nil when t is constant.
func splitConst(t *Term) (*Term, *big.Int) {
	switch t.Op {
	case "const":
		return nil, t.IV
	case "+":
		if t.Args[1].IsConst() {
			return t.Args[0], t.Args[1].IV
		}
		if t.Args[0].IsConst() {
			return t.Args[1], t.Args[0].IV
		}
	case "-":
		if t.Args[1].IsConst() {
			return t.Args[0], new(big.Int).Neg(t.Args[1].IV)
		}
	}
	return t, bigZero
}

func (f *TF) Add(a, b *Term) *Term {
	if a.IsConst() && b.IsConst() {
		return f.Int(new(big.Int).Add(a.IV, b.IV))
	}
	if ba, ka := splitConst(a); ka.Sign() != 0 && ba != nil {
		if bb, kb := splitConst(b); bb != nil {
			k := new(big.Int).Add(ka, kb)
			return f.addK(f.Add(ba, bb), k)
		} else {
			return f.addK(ba, new(big.Int).Add(ka, kb))
		}
	} else if bb, kb := splitConst(b); kb.Sign() != 0 && bb != nil && !b.IsConst() {
		if a.IsConst() {
			return f.addK(bb, new(big.Int).Add(kb, a.IV))
		}
		return f.addK(f.Add(a, bb), kb)
	}
	if a.IsConst() && a.IV.Sign() == 0 {
		return b
	}
	if b.IsConst() && b.IV.Sign() == 0 {
		return a
	}
	t := &Term{Op: "+", Sort: SInt, Args: []*Term{a, b}}
	if a.lo != nil && b.lo != nil {
		t.lo = new(big.Int).Add(a.lo, b.lo)
	}
	if a.hi != nil && b.hi != nil {
		t.hi = new(big.Int).Add(a.hi, b.hi)
	}
	return f.intern(t)
}

// addK builds t + k with k constant, in canonical form (+ t k).
func (f *TF) addK(t *Term, k *big.Int) *Term {
	if k.Sign() == 0 {
		return t
	}
	if t.IsConst() {
		return f.Int(new(big.Int).Add(t.IV, k))
	}
	kt := f.Int(k)
	r := &Term{Op: "+", Sort: SInt, Args: []*Term{t, kt}}
	if t.lo != nil {
		r.lo = new(big.Int).Add(t.lo, k)
	}
	if t.hi != nil {
		r.hi = new(big.Int).Add(t.hi, k)
	}
	return f.intern(r)
}

func (f *TF) Neg(a *Term) *Term {
	if a.IsConst() {
		return f.Int(new(big.Int).Neg(a.IV))
	}
	if a.Op == "neg" {
		return a.Args[0]
	}
	if a.Op == "-" {
		return f.Sub(a.Args[1], a.Args[0])
	}
	if ba, ka := splitConst(a); ka.Sign() != 0 && ba != nil {
		return f.addK(f.Neg(ba), new(big.Int).Neg(ka))
	}
	if a.Op == "ite" && (a.Args[1].Op == "neg" || a.Args[2].Op == "neg" || a.Args[1].IsConst() || a.Args[2].IsConst()) {
		return f.Ite(a.Args[0], f.Neg(a.Args[1]), f.Neg(a.Args[2]))
	}
	t := &Term{Op: "neg", Sort: SInt, Args: []*Term{a}}
	if a.hi != nil {
		t.lo = new(big.Int).Neg(a.hi)
	}
	if a.lo != nil {
		t.hi = new(big.Int).Neg(a.lo)
	}
	return f.intern(t)
}

func (f *TF) Sub(a, b *Term) *Term {
	if a == b {
		return f.Int64(0)
	}
	if a.IsConst() && b.IsConst() {
		return f.Int(new(big.Int).Sub(a.IV, b.IV))
	}
	if b.IsConst() {
		return f.addK(a, new(big.Int).Neg(b.IV))
	}
	if a.IsConst() && a.IV.Sign() == 0 {
		return f.Neg(b)
	}
	if b.Op == "neg" {
		return f.Add(a, b.Args[0])
	}
	{
		ba, ka := splitConst(a)
		bb, kb := splitConst(b)
		if (ka.Sign() != 0 || kb.Sign() != 0) && bb != nil {
			k := new(big.Int).Sub(ka, kb)
			if ba == nil {
				return f.addK(f.Neg(bb), k)
			}
			return f.addK(f.Sub(ba, bb), k)
		}
	}
	t := &Term{Op: "-", Sort: SInt, Args: []*Term{a, b}}
	if a.lo != nil && b.hi != nil {
		t.lo = new(big.Int).Sub(a.lo, b.hi)
	}
	if a.hi != nil && b.lo != nil {
		t.hi = new(big.Int).Sub(a.hi, b.lo)
	}
	return f.intern(t)
}

func (f *TF) Mul(a, b *Term) *Term {
	if a.IsConst() && b.IsConst() {
		return f.Int(new(big.Int).Mul(a.IV, b.IV))
	}
	if b.IsConst() {
		a, b = b, a
	}
	if a.IsConst() {
		if a.IV.Sign() == 0 {
			return a
		}
		if a.IV.Cmp(bigOne) == 0 {
			return b
		}
	}
	t := &Term{Op: "*", Sort: SInt, Args: []*Term{a, b}}
	if a.lo != nil && a.hi != nil && b.lo != nil && b.hi != nil {
		c := []*big.Int{
			new(big.Int).Mul(a.lo, b.lo), new(big.Int).Mul(a.lo, b.hi),
			new(big.Int).Mul(a.hi, b.lo), new(big.Int).Mul(a.hi, b.hi)}
		t.lo, t.hi = c[0], c[0]
		for _, x := range c[1:] {
			t.lo = bmin(t.lo, x)
			t.hi = bmax(t.hi, x)
		}
	}
	return f.intern(t)
}

// IntBit builds a bit operation (and/or/xor) on Int terms via 64-bit two's complement; the result is the unsigned
// value in [0, 2^64).
func (f *TF) IntBit(op string, a, b *Term) *Term {
	m := pow2(64)
	if a.IsConst() && b.IsConst() {
		x, y := new(big.Int).Mod(a.IV, m), new(big.Int).Mod(b.IV, m)
		r := new(big.Int)
		switch op {
		case "and":
			r.And(x, y)
		case "or":
			r.Or(x, y)
		case "xor":
			r.Xor(x, y)
		}
		return f.Int(r)
	}
	t := &Term{Op: "ibv" + op, Sort: SInt, Args: []*Term{a, b}, lo: bigZero, hi: new(big.Int).Sub(m, bigOne)}
	return f.intern(t)
}

// floorDiv / floorMod big helpers (SMT-LIB div/mod semantics for positive divisor; Euclidean in general)
func euclidDivMod(a, b *big.Int) (*big.Int, *big.Int) {
	q, m := new(big.Int).DivMod(a, b, new(big.Int)) // Euclidean: m >= 0
	return q, m
}

// Div is SMT-LIB integer div (Euclidean). b must be non-zero for a meaningful result.
func (f *TF) Div(a, b *Term) *Term {
	if a.IsConst() && b.IsConst() && b.IV.Sign() != 0 {
		q, _ := euclidDivMod(a.IV, b.IV)
		return f.Int(q)
	}
	if b.IsConst() && b.IV.Cmp(bigOne) == 0 {
		return a
	}
	t := &Term{Op: "div", Sort: SInt, Args: []*Term{a, b}}
	if b.IsConst() && b.IV.Sign() > 0 {
		if a.lo != nil {
			t.lo, _ = euclidDivMod(a.lo, b.IV)
		}
		if a.hi != nil {
			t.hi, _ = euclidDivMod(a.hi, b.IV)
		}
	}
	return f.intern(t)
}

func (f *TF) Mod(a, b *Term) *Term {
	if a.IsConst() && b.IsConst() && b.IV.Sign() != 0 {
		_, m := euclidDivMod(a.IV, b.IV)
		return f.Int(m)
	}
	if b.IsConst() && b.IV.Sign() > 0 && a.lo != nil && a.hi != nil && a.lo.Sign() >= 0 && a.hi.Cmp(b.IV) < 0 {
		return a
	}
	t := &Term{Op: "mod", Sort: SInt, Args: []*Term{a, b}}
	if b.IsConst() && b.IV.Sign() > 0 {
		t.lo = bigZero
		t.hi = new(big.Int).Sub(b.IV, bigOne)
	}
	return f.intern(t)
}

// comparison on Int sort: op in < <= > >=
func (f *TF) Cmp(op string, a, b *Term) *Term {
	switch op {
	case ">":
		return f.Cmp("<", b, a)
	case ">=":
		return f.Cmp("<=", b, a)
	}
	if a.IsConst() && b.IsConst() {
		c := a.IV.Cmp(b.IV)
		if op == "<" {
			return f.Bool(c < 0)
		}
		return f.Bool(c <= 0)
	}
	if a == b {
		return f.Bool(op == "<=")
	}
	if a.hi != nil && b.lo != nil {
		c := a.hi.Cmp(b.lo)
		if c < 0 || (c == 0 && op == "<=") {
			return f.Bool(true)
		}
	}
	if a.lo != nil && b.hi != nil {
		c := a.lo.Cmp(b.hi)
		if c > 0 || (c == 0 && op == "<") {
			return f.Bool(false)
		}
	}
	return f.mk(op, SBool, 0, a, b)
}

// ---------- BV ----------

func (f *TF) BVBin(op string, a, b *Term) *Term {
	w := a.W
	if a.IsConst() && b.IsConst() {
		m := pow2(w)
		x, y := a.IV, b.IV
		sx, sy := toSigned(x, w), toSigned(y, w)
		r := new(big.Int)
		switch op {
		case "bvadd":
			r.Add(x, y)
		case "bvsub":
			r.Sub(x, y)
		case "bvmul":
			r.Mul(x, y)
		case "bvand":
			r.And(x, y)
		case "bvor":
			r.Or(x, y)
		case "bvxor":
			r.Xor(x, y)
		case "bvudiv":
			if y.Sign() == 0 {
				r.Sub(m, bigOne)
			} else {
				r.Div(x, y)
			}
		case "bvurem":
			if y.Sign() == 0 {
				r.Set(x)
			} else {
				r.Mod(x, y)
			}
		case "bvsdiv":
			if sy.Sign() == 0 {
				return f.mk(op, SBV, w, a, b)
			}
			r.Quo(sx, sy)
		case "bvsrem":
			if sy.Sign() == 0 {
				return f.mk(op, SBV, w, a, b)
			}
			r.Rem(sx, sy)
		case "bvshl":
			if y.Cmp(big.NewInt(int64(w))) >= 0 {
				r.SetInt64(0)
			} else {
				r.Lsh(x, uint(y.Int64()))
			}
		case "bvlshr":
			if y.Cmp(big.NewInt(int64(w))) >= 0 {
				r.SetInt64(0)
			} else {
				r.Rsh(x, uint(y.Int64()))
			}
		case "bvashr":
			if y.Cmp(big.NewInt(int64(w))) >= 0 {
				if sx.Sign() < 0 {
					r.SetInt64(-1)
				} else {
					r.SetInt64(0)
				}
			} else {
				r.Rsh(sx, uint(y.Int64()))
			}
		default:
			panic("BVBin const " + op)
		}
		return f.BV(r.Mod(r, m), w)
	}
	// light identities
	switch op {
	case "bvadd", "bvor", "bvxor", "bvsub", "bvshl", "bvlshr", "bvashr":
		if b.IsConst() && b.IV.Sign() == 0 {
			return a
		}
		if a.IsConst() && a.IV.Sign() == 0 && (op == "bvadd" || op == "bvor" || op == "bvxor") {
			return b
		}
	case "bvand":
		if b.IsConst() && b.IV.Sign() == 0 {
			return b
		}
		if a.IsConst() && a.IV.Sign() == 0 {
			return a
		}
	case "bvmul":
		if b.IsConst() && b.IV.Cmp(bigOne) == 0 {
			return a
		}
		if a.IsConst() && a.IV.Cmp(bigOne) == 0 {
			return b
		}
	}
	return f.mk(op, SBV, w, a, b)
}

func toSigned(x *big.Int, w int) *big.Int {
	if x.Bit(w-1) == 1 {
		return new(big.Int).Sub(x, pow2(w))
	}
	return x
}

func (f *TF) BVNot(a *Term) *Term {
	if a.IsConst() {
		return f.BV(new(big.Int).Sub(new(big.Int).Sub(pow2(a.W), bigOne), a.IV), a.W)
	}
	return f.mk("bvnot", SBV, a.W, a)
}
func (f *TF) BVNeg(a *Term) *Term {
	if a.IsConst() {
		return f.BV(new(big.Int).Neg(a.IV), a.W)
	}
	return f.mk("bvneg", SBV, a.W, a)
}

// BVCmp: op in bvult bvule bvslt bvsle
func (f *TF) BVCmp(op string, a, b *Term) *Term {
	if a.IsConst() && b.IsConst() {
		x, y := a.IV, b.IV
		if op == "bvslt" || op == "bvsle" {
			x, y = toSigned(x, a.W), toSigned(y, a.W)
		}
		c := x.Cmp(y)
		if op == "bvult" || op == "bvslt" {
			return f.Bool(c < 0)
		}
		return f.Bool(c <= 0)
	}
	return f.mk(op, SBool, 0, a, b)
}

func (f *TF) Extract(a *Term, hi, lo int) *Term {
	if hi == a.W-1 && lo == 0 {
		return a
	}
	if a.IsConst() {
		v := new(big.Int).Rsh(a.IV, uint(lo))
		return f.BV(v, hi-lo+1)
	}
	return f.intern(&Term{Op: "extract", Sort: SBV, W: hi - lo + 1, Args: []*Term{a}, P: [2]int{hi, lo}})
}

func (f *TF) Extend(a *Term, signed bool, toW int) *Term {
	if toW == a.W {
		return a
	}
	if toW < a.W {
		return f.Extract(a, toW-1, 0)
	}
	if a.IsConst() {
		if signed {
			return f.BV(toSigned(a.IV, a.W), toW)
		}
		return f.BV(a.IV, toW)
	}
	op := "zero_extend"
	if signed {
		op = "sign_extend"
	}
	return f.intern(&Term{Op: op, Sort: SBV, W: toW, Args: []*Term{a}, P: [2]int{toW - a.W, 0}})
}

// ---------- FP (float64, RNE) ----------

func (f *TF) FPBin(op string, a, b *Term) *Term {
	if a.IsConst() && b.IsConst() {
		switch op {
		case "fp.add":
			return f.FP(a.FV + b.FV)
		case "fp.sub":
			return f.FP(a.FV - b.FV)
		case "fp.mul":
			return f.FP(a.FV * b.FV)
		case "fp.div":
			return f.FP(a.FV / b.FV)
		}
	}
	return f.mk(op, SFP, 0, a, b)
}
func (f *TF) FPUn(op string, a *Term) *Term {
	if a.IsConst() {
		switch op {
		case "fp.neg":
			return f.FP(-a.FV)
		case "fp.abs":
			return f.FP(math.Abs(a.FV))
		case "fp.round": // roundToIntegral RNA == math.Round
			return f.FP(math.Round(a.FV))
		}
	}
	return f.mk(op, SFP, 0, a)
}
func (f *TF) FPCmp(op string, a, b *Term) *Term { // fp.lt fp.leq fp.eq
	if a.IsConst() && b.IsConst() {
		switch op {
		case "fp.lt":
			return f.Bool(a.FV < b.FV)
		case "fp.leq":
			return f.Bool(a.FV <= b.FV)
		case "fp.eq":
			return f.Bool(a.FV == b.FV)
		}
	}
	return f.mk(op, SBool, 0, a, b)
}
func (f *TF) FPPred(op string, a *Term) *Term { // fp.isNaN fp.isNegative fp.isInfinite
	if a.IsConst() {
		switch op {
		case "fp.isNaN":
			return f.Bool(math.IsNaN(a.FV))
		case "fp.isNegative":
			return f.Bool(math.Signbit(a.FV) && !math.IsNaN(a.FV))
		case "fp.isInfinite":
			return f.Bool(math.IsInf(a.FV, 0))
		}
	}
	return f.mk(op, SBool, 0, a)
}

// FPFromBV: signed/unsigned BV64 -> float64 (RNE)
func (f *TF) FPFromBV(a *Term, signed bool) *Term {
	if a.IsConst() {
		if signed {
			return f.FP(float64(toSigned(a.IV, a.W).Int64()))
		}
		return f.FP(float64(a.IV.Uint64()))
	}
	op := "to_fp_unsigned"
	if signed {
		op = "to_fp_signed"
	}
	return f.mk(op, SFP, 0, a)
}

// FPToBV: float64 -> BV(w) RTZ; out-of-range/NaN handled by caller with ite (amd64 semantics)
func (f *TF) FPToBV(a *Term, signed bool, w int) *Term {
	op := "fp.to_ubv"
	if signed {
		op = "fp.to_sbv"
	}
	return f.intern(&Term{Op: op, Sort: SBV, W: w, Args: []*Term{a}})
}

// FPBits: reinterpretation float64 -> BV64 is not available as a function in SMT-LIB; we avoid needing it.

// ---------- printing ----------

func smtInt(v *big.Int) string {
	if v.Sign() < 0 {
		return "(- " + new(big.Int).Neg(v).String() + ")"
	}
	return v.String()
}

func sortStr(s Sort, w int) string {
	switch s {
	case SBool:
		return "Bool"
	case SInt:
		return "Int"
	case SBV:
		return fmt.Sprintf("(_ BitVec %d)", w)
	case SFP:
		return "(_ FloatingPoint 11 53)"
	}
	return "?"
}

func (t *Term) head() string {
	switch t.Op {
	case "ibvand", "ibvor", "ibvxor":
		return "" // handled in render
	case "neg":
		return "-"
	case "extract":
		return fmt.Sprintf("(_ extract %d %d)", t.P[0], t.P[1])
	case "zero_extend", "sign_extend":
		return fmt.Sprintf("(_ %s %d)", t.Op, t.P[0])
	case "fp.add", "fp.sub", "fp.mul", "fp.div":
		return t.Op + " RNE"
	case "fp.round":
		return "fp.roundToIntegral RNA"
	case "to_fp_signed":
		return "(_ to_fp 11 53) RNE"
	case "to_fp_unsigned":
		return "(_ to_fp_unsigned 11 53) RNE"
	case "fp.to_sbv", "fp.to_ubv":
		return fmt.Sprintf("(_ %s %d) RTZ", t.Op, t.W)
	}
	return t.Op
}

func leafStr(t *Term) string {
	switch t.Op {
	case "const":
		switch t.Sort {
		case SBool:
			if t.BV_ {
				return "true"
			}
			return "false"
		case SInt:
			return smtInt(t.IV)
		case SBV:
			if t.W%4 == 0 {
				return fmt.Sprintf("#x%0*s", t.W/4, t.IV.Text(16))
			}
			return fmt.Sprintf("#b%0*s", t.W, t.IV.Text(2))
		case SFP:
			return fmt.Sprintf("((_ to_fp 11 53) #x%016x)", math.Float64bits(t.FV))
		}
	case "var":
		return t.Name
	}
	return ""
}

// SMT renders the term with let-bindings for shared subterms.
func SMT(root *Term) string {
	if s := leafStr(root); s != "" {
		return s
	}
	// count parents
	cnt := map[*Term]int{}
	var order []*Term
	var visit func(t *Term)
	visit = func(t *Term) {
		cnt[t]++
		if cnt[t] > 1 {
			return
		}
		for _, a := range t.Args {
			visit(a)
		}
		order = append(order, t) // post-order
	}
	visit(root)
	names := map[*Term]string{}
	var render func(t *Term) string
	render = func(t *Term) string {
		if n, ok := names[t]; ok {
			return n
		}
		if s := leafStr(t); s != "" {
			return s
		}
		var sb strings.Builder
		if t.Op == "ibvand" || t.Op == "ibvor" || t.Op == "ibvxor" {
			// bit operation on mathematical integers through 64-bit two's complement
			fmt.Fprintf(&sb, "(bv2int (%s ((_ int2bv 64) %s) ((_ int2bv 64) %s)))", "bv"+t.Op[3:], render(t.Args[0]), render(t.Args[1]))
			return sb.String()
		}
		sb.WriteByte('(')
		sb.WriteString(t.head())
		for _, a := range t.Args {
			sb.WriteByte(' ')
			sb.WriteString(render(a))
		}
		sb.WriteByte(')')
		return sb.String()
	}
	var sb strings.Builder
	closeN := 0
	for _, t := range order {
		if t == root || cnt[t] < 2 || len(t.Args) == 0 {
			continue
		}
		body := render(t)
		n := fmt.Sprintf("?s%d", t.id)
		fmt.Fprintf(&sb, "(let ((%s %s)) ", n, body)
		names[t] = n
		closeN++
	}
	sb.WriteString(render(root))
	sb.WriteString(strings.Repeat(")", closeN))
	return sb.String()
}

// Vars collects the variables of a term.
func Vars(root *Term, into map[string]*Term) {
	seen := map[*Term]bool{}
	var visit func(t *Term)
	visit = func(t *Term) {
		if seen[t] {
			return
		}
		seen[t] = true
		if t.Op == "var" {
			into[t.Name] = t
		}
		for _, a := range t.Args {
			visit(a)
		}
	}
	visit(root)
}

// ---------- evaluation under a model ----------

type MVal struct {
	B bool
	I *big.Int
	F float64
}

type Model map[string]MVal

type evalErr struct{ msg string }

func Eval(root *Term, m Model) (res MVal, err error) {
	defer func() {
		if r := recover(); r != nil {
			if e, ok := r.(evalErr); ok {
				err = fmt.Errorf("%s", e.msg)
				return
			}
			panic(r)
		}
	}()
	memo := map[*Term]MVal{}
	var ev func(t *Term) MVal
	ev = func(t *Term) MVal {
		if v, ok := memo[t]; ok {
			return v
		}
		var r MVal
		switch t.Op {
		case "const":
			r = MVal{B: t.BV_, I: t.IV, F: t.FV}
		case "var":
			v, ok := m[t.Name]
			if !ok {
				panic(evalErr{"no model value for " + t.Name})
			}
			r = v
			if t.Sort == SBV && v.I != nil {
				r.I = new(big.Int).Mod(v.I, pow2(t.W))
			}
		case "not":
			r.B = !ev(t.Args[0]).B
		case "and":
			r.B = ev(t.Args[0]).B && ev(t.Args[1]).B
		case "or":
			r.B = ev(t.Args[0]).B || ev(t.Args[1]).B
		case "ite":
			if ev(t.Args[0]).B {
				r = ev(t.Args[1])
			} else {
				r = ev(t.Args[2])
			}
		case "=":
			a, b := ev(t.Args[0]), ev(t.Args[1])
			switch t.Args[0].Sort {
			case SBool:
				r.B = a.B == b.B
			case SFP:
				r.B = math.Float64bits(a.F) == math.Float64bits(b.F) || (math.IsNaN(a.F) && math.IsNaN(b.F))
			default:
				r.B = a.I.Cmp(b.I) == 0
			}
		case "+":
			r.I = new(big.Int).Add(ev(t.Args[0]).I, ev(t.Args[1]).I)
		case "-":
			r.I = new(big.Int).Sub(ev(t.Args[0]).I, ev(t.Args[1]).I)
		case "*":
			r.I = new(big.Int).Mul(ev(t.Args[0]).I, ev(t.Args[1]).I)
		case "neg":
			r.I = new(big.Int).Neg(ev(t.Args[0]).I)
		case "div", "mod":
			a, b := ev(t.Args[0]).I, ev(t.Args[1]).I
			if b.Sign() == 0 {
				panic(evalErr{"division by zero in model evaluation"})
			}
			q, mm := euclidDivMod(a, b)
			if t.Op == "div" {
				r.I = q
			} else {
				r.I = mm
			}
		case "ibvand", "ibvor", "ibvxor":
			m := pow2(64)
			x, y := new(big.Int).Mod(ev(t.Args[0]).I, m), new(big.Int).Mod(ev(t.Args[1]).I, m)
			r.I = new(big.Int)
			switch t.Op {
			case "ibvand":
				r.I.And(x, y)
			case "ibvor":
				r.I.Or(x, y)
			default:
				r.I.Xor(x, y)
			}
		case "<":
			r.B = ev(t.Args[0]).I.Cmp(ev(t.Args[1]).I) < 0
		case "<=":
			r.B = ev(t.Args[0]).I.Cmp(ev(t.Args[1]).I) <= 0
		case "bvadd", "bvsub", "bvmul", "bvand", "bvor", "bvxor", "bvudiv", "bvurem", "bvsdiv", "bvsrem", "bvshl", "bvlshr", "bvashr":
			tf := NewTF()
			a, b := ev(t.Args[0]).I, ev(t.Args[1]).I
			c := tf.BVBin(t.Op, tf.BV(a, t.W), tf.BV(b, t.W))
			if !c.IsConst() {
				panic(evalErr{"bv division by zero in model evaluation"})
			}
			r.I = c.IV
		case "bvnot":
			r.I = new(big.Int).Sub(new(big.Int).Sub(pow2(t.W), bigOne), ev(t.Args[0]).I)
		case "bvneg":
			r.I = new(big.Int).Mod(new(big.Int).Neg(ev(t.Args[0]).I), pow2(t.W))
		case "bvult":
			r.B = ev(t.Args[0]).I.Cmp(ev(t.Args[1]).I) < 0
		case "bvule":
			r.B = ev(t.Args[0]).I.Cmp(ev(t.Args[1]).I) <= 0
		case "bvslt":
			w := t.Args[0].W
			r.B = toSigned(ev(t.Args[0]).I, w).Cmp(toSigned(ev(t.Args[1]).I, w)) < 0
		case "bvsle":
			w := t.Args[0].W
			r.B = toSigned(ev(t.Args[0]).I, w).Cmp(toSigned(ev(t.Args[1]).I, w)) <= 0
		case "extract":
			v := new(big.Int).Rsh(ev(t.Args[0]).I, uint(t.P[1]))
			r.I = v.Mod(v, pow2(t.W))
		case "zero_extend":
			r.I = ev(t.Args[0]).I
		case "sign_extend":
			r.I = new(big.Int).Mod(toSigned(ev(t.Args[0]).I, t.Args[0].W), pow2(t.W))
		case "fp.add":
			r.F = ev(t.Args[0]).F + ev(t.Args[1]).F
		case "fp.sub":
			r.F = ev(t.Args[0]).F - ev(t.Args[1]).F
		case "fp.mul":
			r.F = ev(t.Args[0]).F * ev(t.Args[1]).F
		case "fp.div":
			r.F = ev(t.Args[0]).F / ev(t.Args[1]).F
		case "fp.neg":
			r.F = -ev(t.Args[0]).F
		case "fp.abs":
			r.F = math.Abs(ev(t.Args[0]).F)
		case "fp.round":
			r.F = math.Round(ev(t.Args[0]).F)
		case "fp.lt":
			r.B = ev(t.Args[0]).F < ev(t.Args[1]).F
		case "fp.leq":
			r.B = ev(t.Args[0]).F <= ev(t.Args[1]).F
		case "fp.eq":
			r.B = ev(t.Args[0]).F == ev(t.Args[1]).F
		case "fp.isNaN":
			r.B = math.IsNaN(ev(t.Args[0]).F)
		case "fp.isNegative":
			x := ev(t.Args[0]).F
			r.B = math.Signbit(x) && !math.IsNaN(x)
		case "fp.isInfinite":
			r.B = math.IsInf(ev(t.Args[0]).F, 0)
		case "to_fp_signed":
			r.F = float64(toSigned(ev(t.Args[0]).I, t.Args[0].W).Int64())
		case "to_fp_unsigned":
			r.F = float64(ev(t.Args[0]).I.Uint64())
		case "fp.to_sbv":
			x := ev(t.Args[0]).F
			if math.IsNaN(x) || x >= 9.3e18 || x <= -9.3e18 {
				// unspecified in SMT-LIB; callers guard with ite, so any value is fine
				r.I = big.NewInt(0)
			} else {
				r.I = new(big.Int).Mod(big.NewInt(int64(x)), pow2(t.W))
			}
		case "fp.to_ubv":
			x := ev(t.Args[0]).F
			if math.IsNaN(x) || x >= 1.8e19 || x < 0 {
				r.I = big.NewInt(0)
			} else {
				r.I = new(big.Int).Mod(new(big.Int).SetUint64(uint64(x)), pow2(t.W))
			}
		default:
			panic(evalErr{"eval: unknown op " + t.Op})
		}
		memo[t] = r
		return r
	}
	return ev(root), nil
}

func sortedKeys[V any](m map[string]V) []string {
	ks := make([]string, 0, len(m))
	for k := range m {
		ks = append(ks, k)
	}
	sort.Strings(ks)
	return ks
}

// ---------- 128-bit idioms: (div P 2^64, mod P 2^64) pairs as produced by bits.Mul64 ----------

var two64 = pow2(64)

func hiOf(t *Term) (*Term, bool) {
	if t.Op == "div" && t.Args[1].IsConst() && t.Args[1].IV.Cmp(two64) == 0 {
		return t.Args[0], true
	}
	return nil, false
}
func loOf(t *Term) (*Term, bool) {
	if t.Op == "mod" && t.Args[1].IsConst() && t.Args[1].IV.Cmp(two64) == 0 {
		return t.Args[0], true
	}
	return nil, false
}
func isZero(t *Term) bool { return t.IsConst() && t.Sort == SInt && t.IV.Sign() == 0 }

// pairOf matches a relation op(x, y) whose sides are both high words (or both low words) of wide products
// (a literal 0 counts as the word of the product 0) and returns the products.
func (f *TF) pairOf(t *Term, op string, word func(*Term) (*Term, bool)) (p, q *Term, ok bool) {
	if t.Op != op || len(t.Args) != 2 {
		return nil, nil, false
	}
	x, y := t.Args[0], t.Args[1]
	px, okx := word(x)
	py, oky := word(y)
	switch {
	case okx && oky:
		return px, py, true
	case okx && isZero(y):
		return px, f.Int64(0), true
	case oky && isZero(x):
		return f.Int64(0), py, true
	}
	return nil, nil, false
}

// wideEq: (hi(P) = hi(Q)) and (lo(P) = lo(Q))  ==>  P = Q   (Euclidean div/mod by 2^64 is a bijection)
func (f *TF) wideEq(a, b *Term) *Term {
	for _, ab := range [2][2]*Term{{a, b}, {b, a}} {
		p1, q1, ok1 := f.pairOf(ab[0], "=", hiOf)
		p2, q2, ok2 := f.pairOf(ab[1], "=", loOf)
		if ok1 && ok2 {
			if p1 == p2 && q1 == q2 {
				return f.Eq(p1, q1)
			}
			if p1 == q2 && q1 == p2 {
				return f.Eq(p1, q1)
			}
		}
	}
	return nil
}

// wideLt: (hi(P) < hi(Q)) or ((hi(P) = hi(Q)) and (lo(P) < lo(Q)))  ==>  P < Q
func (f *TF) wideLt(a, b *Term) *Term {
	p1, q1, ok1 := f.pairOf(a, "<", hiOf)
	if !ok1 || b.Op != "and" {
		return nil
	}
	for _, xy := range [2][2]*Term{{b.Args[0], b.Args[1]}, {b.Args[1], b.Args[0]}} {
		p2, q2, ok2 := f.pairOf(xy[0], "=", hiOf)
		p3, q3, ok3 := f.pairOf(xy[1], "<", loOf)
		if ok2 && ok3 && p3 == p1 && q3 == q1 && ((p2 == p1 && q2 == q1) || (p2 == q1 && q2 == p1)) {
			return f.Cmp("<", p1, q1)
		}
	}
	return nil
}
