package main

// Runtime values of the symbolic interpreter.
//
//   bool / *Term(SBool)              booleans
//   uint64 / *Term(SInt|SBV)         all integer types (concrete = sign- or zero-extended 64-bit pattern)
//   float64 / *Rat / *Term(SFP)      float64 (math mode: exact rationals; bits mode: IEEE terms)
//   string                           strings (always concrete)
//   Struct, Array                    aggregates (copied on load/store)
//   *Value                           pointers
//   Slice                            slices (concrete length)
//   *Map, *Chan, Iface, Tuple, funcs

import (
	"fmt"
	"go/types"
	"math/big"
	"sort"
	"strings"

	"golang.org/x/tools/go/ssa"
)

type Value = any

type Struct []Value
type Array []Value
type Tuple []Value

type Slice struct {
	A   []Value // A[0:len] are the elements, cap(A) the capacity
	Nil bool
}

type Iface struct {
	T types.Type
	V Value
}

type Closure struct {
	Fn  *ssa.Function
	Env []Value
}

// bound method closures / intrinsic function values
type IntrinsicFn struct {
	Name string
}

type Rat struct {
	Num     *Term    // Int sort
	Den     *big.Int // > 0
	Inexact bool     // the IEEE value may differ from Num/Den (rounding could not be excluded)
	Scaled  *Term    // if set: this float is, by definition, one whose product with 1e10 converts to this integer
}

type mapEntry struct {
	K, V    Value
	deleted bool
	sym     bool // key contains symbolic terms (not in idx)
}

type Map struct {
	idx     map[string]int
	entries []*mapEntry
	n       int
	nsym    int
}

func NewMap() *Map { return &Map{idx: map[string]int{}} }

func (m *Map) Len() int { return m.n }
func (m *Map) Get(k string) (Value, bool) {
	if m == nil {
		return nil, false
	}
	i, ok := m.idx[k]
	if !ok {
		return nil, false
	}
	return m.entries[i].V, true
}
func (m *Map) Set(ks string, k, v Value) {
	if i, ok := m.idx[ks]; ok {
		m.entries[i].V = v
		return
	}
	m.idx[ks] = len(m.entries)
	m.entries = append(m.entries, &mapEntry{K: k, V: v})
	m.n++
}
func (m *Map) Delete(ks string) {
	if m == nil {
		return
	}
	if i, ok := m.idx[ks]; ok {
		m.entries[i].deleted = true
		delete(m.idx, ks)
		m.n--
	}
}

type mapIter struct {
	m     *Map
	order []*mapEntry
	pos   int
}

type strIter struct {
	s   string
	pos int
}

type Chan struct {
	id     int
	buf    []Value
	cap    int
	closed bool
	// rendezvous bookkeeping is in sched.go
	sendq []*waiter
	recvq []*waiter
}

func isSym(v Value) bool {
	switch v.(type) {
	case *Term, *Rat:
		return true
	}
	return false
}

// ---- type helpers ----

func under(t types.Type) types.Type { return t.Underlying() }

func isSigned(t types.Type) bool {
	b, ok := under(t).(*types.Basic)
	return ok && b.Info()&types.IsInteger != 0 && b.Info()&types.IsUnsigned == 0
}

func intWidth(t types.Type) int {
	b, ok := under(t).(*types.Basic)
	if !ok {
		return 64
	}
	switch b.Kind() {
	case types.Int8, types.Uint8:
		return 8
	case types.Int16, types.Uint16:
		return 16
	case types.Int32, types.Uint32:
		return 32
	}
	return 64
}

func isIntType(t types.Type) bool {
	b, ok := under(t).(*types.Basic)
	return ok && b.Info()&types.IsInteger != 0
}
func isFloatType(t types.Type) bool {
	b, ok := under(t).(*types.Basic)
	return ok && b.Info()&types.IsFloat != 0
}
func isBoolType(t types.Type) bool {
	b, ok := under(t).(*types.Basic)
	return ok && b.Info()&types.IsBoolean != 0
}
func isStringType(t types.Type) bool {
	b, ok := under(t).(*types.Basic)
	return ok && b.Info()&types.IsString != 0
}

// normConcrete truncates/sign-extends a 64-bit pattern to the representation of type t.
func normConcrete(x uint64, t types.Type) uint64 {
	w := intWidth(t)
	if w == 64 {
		return x
	}
	mask := uint64(1)<<uint(w) - 1
	x &= mask
	if isSigned(t) && x&(1<<uint(w-1)) != 0 {
		x |= ^mask
	}
	return x
}

func zero(t types.Type) Value {
	switch t := t.(type) {
	case *types.Basic:
		if t.Kind() == types.UntypedNil {
			return nil
		}
		switch {
		case t.Info()&types.IsBoolean != 0:
			return false
		case t.Info()&types.IsInteger != 0:
			return uint64(0)
		case t.Info()&types.IsFloat != 0:
			return float64(0)
		case t.Info()&types.IsString != 0:
			return ""
		case t.Kind() == types.UnsafePointer:
			return (*Value)(nil)
		}
		panic(fmt.Sprintf("zero: unsupported basic type %v", t))
	case *types.Pointer:
		return (*Value)(nil)
	case *types.Array:
		a := make(Array, t.Len())
		for i := range a {
			a[i] = zero(t.Elem())
		}
		return a
	case *types.Slice:
		return Slice{Nil: true}
	case *types.Struct:
		s := make(Struct, t.NumFields())
		for i := range s {
			s[i] = zero(t.Field(i).Type())
		}
		return s
	case *types.Tuple:
		if t.Len() == 1 {
			return zero(t.At(0).Type())
		}
		s := make(Tuple, t.Len())
		for i := range s {
			s[i] = zero(t.At(i).Type())
		}
		return s
	case *types.Chan:
		return (*Chan)(nil)
	case *types.Map:
		return (*Map)(nil)
	case *types.Signature:
		return (*ssa.Function)(nil)
	case *types.Interface:
		return Iface{}
	case *types.Named:
		return zero(t.Underlying())
	case *types.Alias:
		return zero(types.Unalias(t))
	case *types.TypeParam:
		panic("zero of type parameter (generics must be instantiated)")
	}
	panic(fmt.Sprintf("zero: unexpected type %T %v", t, t))
}

func copyVal(v Value) Value {
	switch v := v.(type) {
	case Struct:
		c := make(Struct, len(v))
		for i := range v {
			c[i] = copyVal(v[i])
		}
		return c
	case Array:
		c := make(Array, len(v))
		for i := range v {
			c[i] = copyVal(v[i])
		}
		return c
	}
	return v
}

// keyString renders a fully concrete value as a canonical map key.
func keyString(v Value) string {
	var sb strings.Builder
	writeKey(&sb, v)
	return sb.String()
}

func writeKey(sb *strings.Builder, v Value) {
	switch v := v.(type) {
	case nil:
		sb.WriteString("nil")
	case bool:
		fmt.Fprintf(sb, "b%v", v)
	case uint64:
		fmt.Fprintf(sb, "i%d", v)
	case float64:
		if v == 0 {
			v = 0 // -0 == +0 as map key
		}
		fmt.Fprintf(sb, "f%v", v)
	case string:
		fmt.Fprintf(sb, "s%q", v)
	case Struct:
		sb.WriteByte('{')
		for _, e := range v {
			writeKey(sb, e)
			sb.WriteByte(',')
		}
		sb.WriteByte('}')
	case Array:
		sb.WriteByte('[')
		for _, e := range v {
			writeKey(sb, e)
			sb.WriteByte(',')
		}
		sb.WriteByte(']')
	case *Value:
		fmt.Fprintf(sb, "p%p", v)
	case *Map:
		fmt.Fprintf(sb, "m%p", v)
	case *Chan:
		fmt.Fprintf(sb, "c%p", v)
	case Iface:
		if v.T == nil {
			sb.WriteString("nilif")
		} else {
			sb.WriteString("I<" + v.T.String() + ">")
			writeKey(sb, v.V)
		}
	default:
		panic(fmt.Sprintf("keyString: unsupported key %T", v))
	}
}

// goString renders a value roughly the way fmt %v would (concrete values only; symbolic leaves as <sym>).
func goString(v Value) string {
	var sb strings.Builder
	writeGo(&sb, v, nil)
	return sb.String()
}

func writeGo(sb *strings.Builder, v Value, t types.Type) {
	switch v := v.(type) {
	case nil:
		sb.WriteString("<nil>")
	case bool:
		fmt.Fprintf(sb, "%v", v)
	case uint64:
		if t != nil && isIntType(t) && !isSigned(t) {
			fmt.Fprintf(sb, "%d", v)
		} else {
			fmt.Fprintf(sb, "%d", int64(v))
		}
	case float64:
		fmt.Fprintf(sb, "%v", v)
	case string:
		sb.WriteString(v)
	case *Term:
		sb.WriteString("<sym>")
	case *Rat:
		sb.WriteString("<symfloat>")
	case Struct:
		sb.WriteByte('{')
		for i, e := range v {
			if i > 0 {
				sb.WriteByte(' ')
			}
			var ft types.Type
			if st, ok := typeUnder[*types.Struct](t); ok {
				ft = st.Field(i).Type()
			}
			writeGo(sb, e, ft)
		}
		sb.WriteByte('}')
	case Array:
		sb.WriteByte('[')
		for i, e := range v {
			if i > 0 {
				sb.WriteByte(' ')
			}
			var et types.Type
			if at, ok := typeUnder[*types.Array](t); ok {
				et = at.Elem()
			}
			writeGo(sb, e, et)
		}
		sb.WriteByte(']')
	case Slice:
		sb.WriteByte('[')
		for i, e := range v.A {
			if i > 0 {
				sb.WriteByte(' ')
			}
			var et types.Type
			if st, ok := typeUnder[*types.Slice](t); ok {
				et = st.Elem()
			}
			writeGo(sb, e, et)
		}
		sb.WriteByte(']')
	case Iface:
		if v.T == nil {
			sb.WriteString("<nil>")
		} else {
			writeGo(sb, v.V, v.T)
		}
	case *Value:
		if v == nil {
			sb.WriteString("<nil>")
		} else {
			sb.WriteString("&")
			writeGo(sb, *v, nil)
		}
	case *Map:
		sb.WriteString("map[")
		if v != nil {
			first := true
			var ks []string
			for k := range v.idx {
				ks = append(ks, k)
			}
			sort.Strings(ks)
			for _, k := range ks {
				if !first {
					sb.WriteByte(' ')
				}
				first = false
				e := v.entries[v.idx[k]]
				writeGo(sb, e.K, nil)
				sb.WriteByte(':')
				writeGo(sb, e.V, nil)
			}
		}
		sb.WriteByte(']')
	case Tuple:
		sb.WriteByte('(')
		for i, e := range v {
			if i > 0 {
				sb.WriteString(", ")
			}
			writeGo(sb, e, nil)
		}
		sb.WriteByte(')')
	default:
		fmt.Fprintf(sb, "<%T>", v)
	}
}

func typeUnder[T types.Type](t types.Type) (T, bool) {
	var z T
	if t == nil {
		return z, false
	}
	x, ok := t.Underlying().(T)
	return x, ok
}
