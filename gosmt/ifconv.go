package main

// If-conversion: a branch on a symbolic condition whose two arms are side-effect free up to their common
// post-dominator is evaluated on both arms and joined with ite terms instead of forking the path
// (covers &&/|| chains, min/max style diamonds and calls to pure leaf functions such as containsPoint).

import (
	"go/token"
	"go/types"
	"sync"

	"golang.org/x/tools/go/ssa"
)

type specAbort struct{ why string }

// storeRec logs a store executed by the frame under if-conversion (stores of both arms are merged with ite).
type storeRec struct {
	p   *Value
	old Value
	t   types.Type
}

type fnInfo struct {
	ipdom map[*ssa.BasicBlock]*ssa.BasicBlock
}

type purity struct {
	mu     sync.Mutex
	fn     map[*ssa.Function]int // 0 unknown, 1 pure, 2 impure, 3 in progress
	region map[*ssa.BasicBlock]int
	info   map[*ssa.Function]*fnInfo
}

func newPurity() *purity {
	return &purity{fn: map[*ssa.Function]int{}, region: map[*ssa.BasicBlock]int{}, info: map[*ssa.Function]*fnInfo{}}
}

func (p *Program) fnInfoOf(f *ssa.Function) *fnInfo {
	p.pur.mu.Lock()
	defer p.pur.mu.Unlock()
	if fi, ok := p.pur.info[f]; ok {
		return fi
	}
	fi := &fnInfo{ipdom: computeIpdom(f)}
	p.pur.info[f] = fi
	return fi
}

// computeIpdom returns the immediate post-dominator of every block (nil if it is the virtual exit).
func computeIpdom(f *ssa.Function) map[*ssa.BasicBlock]*ssa.BasicBlock {
	n := len(f.Blocks)
	// pdom sets as bool matrices (functions are small)
	pdom := make([][]bool, n)
	isExit := make([]bool, n)
	for i, b := range f.Blocks {
		pdom[i] = make([]bool, n)
		if len(b.Succs) == 0 {
			isExit[i] = true
			pdom[i][i] = true
		} else {
			for j := range pdom[i] {
				pdom[i][j] = true
			}
		}
	}
	changed := true
	for changed {
		changed = false
		for i := n - 1; i >= 0; i-- {
			b := f.Blocks[i]
			if isExit[i] {
				continue
			}
			nw := make([]bool, n)
			for j := range nw {
				nw[j] = true
			}
			for _, s := range b.Succs {
				for j := range nw {
					nw[j] = nw[j] && pdom[s.Index][j]
				}
			}
			nw[i] = true
			for j := range nw {
				if nw[j] != pdom[i][j] {
					changed = true
				}
			}
			pdom[i] = nw
		}
	}
	count := func(s []bool) int {
		c := 0
		for _, x := range s {
			if x {
				c++
			}
		}
		return c
	}
	res := map[*ssa.BasicBlock]*ssa.BasicBlock{}
	for i, b := range f.Blocks {
		ci := count(pdom[i])
		for j := range pdom[i] {
			if j != i && pdom[i][j] && count(pdom[j]) == ci-1 {
				res[b] = f.Blocks[j]
				break
			}
		}
	}
	return res
}

// pureFn reports whether a function has no effects visible outside its own frame.
func (p *Program) pureFn(f *ssa.Function) bool {
	p.pur.mu.Lock()
	st := p.pur.fn[f]
	if st == 0 {
		p.pur.fn[f] = 3
	}
	p.pur.mu.Unlock()
	switch st {
	case 1:
		return true
	case 2, 3:
		return false // impure, or recursion
	}
	ok := f.Blocks != nil && len(f.Blocks) <= 64
	if ok {
		for _, b := range f.Blocks {
			if !p.pureBlock(b, true) {
				ok = false
				break
			}
		}
	}
	p.pur.mu.Lock()
	if ok {
		p.pur.fn[f] = 1
	} else {
		p.pur.fn[f] = 2
	}
	p.pur.mu.Unlock()
	return ok
}

func localAddr(v ssa.Value) bool {
	for i := 0; i < 8; i++ {
		switch x := v.(type) {
		case *ssa.Alloc:
			return true
		case *ssa.IndexAddr:
			// &local[i] is local; &slice[i] is not
			if _, isPtr := x.X.Type().Underlying().(*types.Pointer); !isPtr {
				return false
			}
			v = x.X
		case *ssa.FieldAddr:
			v = x.X
		default:
			return false
		}
	}
	return false
}

var pureIntrinsics = map[string]bool{
	"math.Pow": true, "math.Log2": true, "math.Abs": true, "math.Signbit": true, "math.Round": true, "math.IsNaN": true,
	"math.Inf": true, "math/bits.Mul64": true, "math/bits.Add64": true, "math/bits.Sub64": true,
}

func (p *Program) pureBlock(b *ssa.BasicBlock, inCallee bool) bool {
	for _, in := range b.Instrs {
		switch in := in.(type) {
		case *ssa.BinOp, *ssa.Phi, *ssa.Convert, *ssa.ChangeType, *ssa.ChangeInterface, *ssa.MakeInterface,
			*ssa.Extract, *ssa.Field, *ssa.FieldAddr, *ssa.Index, *ssa.IndexAddr, *ssa.Lookup, *ssa.Slice,
			*ssa.Alloc, *ssa.DebugRef, *ssa.Jump, *ssa.If, *ssa.MakeSlice:
		case *ssa.UnOp:
			if in.Op == token.ARROW {
				return false
			}
		case *ssa.Store:
			if !localAddr(in.Addr) {
				return false
			}
		case *ssa.Return:
			if !inCallee {
				return false
			}
		case *ssa.Call:
			if in.Call.Method != nil {
				return false
			}
			switch callee := in.Call.Value.(type) {
			case *ssa.Builtin:
				switch callee.Name() {
				case "len", "cap", "min", "max":
				default:
					return false
				}
			case *ssa.Function:
				if pureIntrinsics[callee.String()] {
					continue
				}
				if callee.Name() == "verifMulCmp" {
					continue
				}
				if !p.pureFn(callee) {
					return false
				}
			default:
				return false
			}
		default:
			return false
		}
	}
	return true
}

// regionPure checks the blocks between a branching block and its post-dominator J.
func (p *Program) regionPure(blk, J *ssa.BasicBlock) bool {
	p.pur.mu.Lock()
	st, ok := p.pur.region[blk]
	p.pur.mu.Unlock()
	if ok {
		return st == 1
	}
	seen := map[*ssa.BasicBlock]bool{J: true}
	work := append([]*ssa.BasicBlock{}, blk.Succs...)
	res := true
	n := 0
	for len(work) > 0 && res {
		b := work[len(work)-1]
		work = work[:len(work)-1]
		if seen[b] {
			continue
		}
		seen[b] = true
		n++
		if n > 24 || len(b.Succs) == 0 || !p.pureBlock(b, false) {
			res = false
			break
		}
		work = append(work, b.Succs...)
	}
	p.pur.mu.Lock()
	if res {
		p.pur.region[blk] = 1
	} else {
		p.pur.region[blk] = 2
	}
	p.pur.mu.Unlock()
	return res
}

// tryIfConvert attempts to evaluate both arms of the If ending fr.block. On success the phis of the join block
// are bound, fr.block is the join block and fr.phisDone is set.
func (e *Exec) tryIfConvert(fr *frame, c *Term) (ok bool) {
	if e.P.NoIfConv || e.spec > 0 {
		return false
	}
	blk := fr.block
	depthAt := e.depth
	defer func() {
		if r := recover(); r != nil {
			e.spec = 0
			switch rr := r.(type) {
			case specAbort, targetPanic:
				e.depth = depthAt
				ok = false
				fr.block = blk
				e.res.IfConvAborted++
				if sa, isSA := rr.(specAbort); isSA && e.P.Verbose {
					e.note("if-conversion aborted in " + fr.fn.Name() + ": " + sa.why)
				}
			default:
				panic(r)
			}
		}
	}()
	if !e.convertInFrame(fr, c) {
		return false
	}
	e.res.IfConv++
	return true
}

// convertInFrame converts the branch ending fr.block and positions the frame at the join block with phis bound.
func (e *Exec) convertInFrame(fr *frame, c *Term) bool {
	blk := fr.block
	J, vals := e.convertAt(fr, blk, c)
	if J == nil {
		return false
	}
	k := 0
	for _, in := range J.Instrs {
		phi, isPhi := in.(*ssa.Phi)
		if !isPhi {
			break
		}
		fr.env[phi] = vals[k]
		k++
	}
	fr.prevBlock = blk
	fr.block = J
	fr.phisDone = true
	return true
}

// convertAt evaluates both arms of the branch ending blk up to its post-dominator J and returns J with the merged
// values of J's phis. Panics with specAbort when the region cannot be merged.
func (e *Exec) convertAt(fr *frame, blk *ssa.BasicBlock, c *Term) (*ssa.BasicBlock, []Value) {
	J := e.P.fnInfoOf(fr.fn).ipdom[blk]
	if J == nil || !e.P.regionPure(blk, J) {
		if e.spec > 0 {
			panic(specAbort{"nested branch not convertible"})
		}
		return nil, nil
	}
	outerLog, outerFrame := e.specLog, e.specFrame
	e.specFrame = fr
	e.spec++
	olds := map[*Value]Value{}
	typs := map[*Value]types.Type{}
	var order []*Value
	var curLog *[]storeRec
	defer func() {
		if r := recover(); r != nil {
			// undo the stores of an interrupted arm before falling back to forking
			if curLog != nil {
				for i := len(*curLog) - 1; i >= 0; i-- {
					*(*curLog)[i].p = (*curLog)[i].old
				}
			}
			for p, v := range olds {
				*p = v
			}
			e.specLog, e.specFrame = outerLog, outerFrame
			panic(r)
		}
	}()
	runArm := func(start *ssa.BasicBlock) ([]Value, map[*Value]Value) {
		var log []storeRec
		e.specLog = &log
		curLog = &log
		v := e.specRun(fr, blk, start, J)
		finals := map[*Value]Value{}
		for _, r := range log {
			if _, seen := olds[r.p]; !seen {
				olds[r.p] = r.old
				typs[r.p] = r.t
				order = append(order, r.p)
			}
		}
		for _, r := range log {
			finals[r.p] = *r.p
		}
		for _, r := range log {
			*r.p = olds[r.p]
		}
		curLog = nil
		return v, finals
	}
	v1, f1 := runArm(blk.Succs[0])
	v2, f2 := runArm(blk.Succs[1])
	e.spec--
	e.specLog, e.specFrame = outerLog, outerFrame
	for _, p := range order {
		a, ok := f1[p]
		if !ok {
			a = olds[p]
		}
		b, ok := f2[p]
		if !ok {
			b = olds[p]
		}
		m := e.mergeVal(c, a, b, typs[p])
		if outerLog != nil {
			*outerLog = append(*outerLog, storeRec{p: p, old: *p, t: typs[p]})
		}
		*p = m
	}
	vals := make([]Value, len(v1))
	k := 0
	for _, in := range J.Instrs {
		phi, isPhi := in.(*ssa.Phi)
		if !isPhi {
			break
		}
		vals[k] = e.mergeVal(c, v1[k], v2[k], phi.Type())
		k++
	}
	return J, vals
}

func predIndex(b, pred *ssa.BasicBlock) int {
	for i, p := range b.Preds {
		if p == pred {
			return i
		}
	}
	panic(specAbort{"join block is not a successor"})
}

func phiVals(fr *frame, b, pred *ssa.BasicBlock) []Value {
	var vals []Value
	idx := -1
	for _, in := range b.Instrs {
		phi, isPhi := in.(*ssa.Phi)
		if !isPhi {
			break
		}
		if idx < 0 {
			idx = predIndex(b, pred)
		}
		vals = append(vals, fr.get(phi.Edges[idx]))
	}
	return vals
}

// specRun executes the region starting at start (entered from pred) until J and returns the values J's phis take.
func (e *Exec) specRun(fr *frame, pred, start, J *ssa.BasicBlock) []Value {
	cur, prev := start, pred
	var pending []Value // phi values of cur already computed by a nested conversion
	havePending := false
	for steps := 0; cur != J; steps++ {
		if steps > 10000 {
			panic(specAbort{"region too long"})
		}
		var vals []Value
		if havePending {
			vals = pending
			havePending = false
		} else {
			vals = phiVals(fr, cur, prev)
		}
		i := 0
		for ; i < len(vals); i++ {
			fr.env[cur.Instrs[i].(*ssa.Phi)] = vals[i]
		}
		var next *ssa.BasicBlock
		for ; i < len(cur.Instrs); i++ {
			e.steps++
			if e.steps > e.budget {
				e.end("budget", "instruction budget exceeded")
			}
			switch in := cur.Instrs[i].(type) {
			case *ssa.Jump:
				next = cur.Succs[0]
			case *ssa.If:
				switch cv := fr.get(in.Cond).(type) {
				case bool:
					if cv {
						next = cur.Succs[0]
					} else {
						next = cur.Succs[1]
					}
				case *Term:
					J2, v2 := e.convertAt(fr, cur, cv)
					if J2 == J {
						return v2
					}
					next = J2
					pending, havePending = v2, true
				}
			default:
				e.visit(fr, in)
			}
		}
		if next == nil {
			panic(specAbort{"region block without successor"})
		}
		prev, cur = cur, next
	}
	return phiVals(fr, J, prev)
}

// mergeVal builds c ? a : b for scalars and aggregates of scalars.
func (e *Exec) mergeVal(c *Term, a, b Value, t types.Type) Value {
	switch x := a.(type) {
	case bool:
		switch y := b.(type) {
		case bool:
			if x == y {
				return x
			}
			return e.simpBool(e.tf.Ite(c, e.tf.Bool(x), e.tf.Bool(y)))
		case *Term:
			return e.simpBool(e.tf.Ite(c, e.tf.Bool(x), y))
		}
	case uint64:
		switch y := b.(type) {
		case uint64:
			if x == y {
				return x
			}
			return e.tf.Ite(c, e.intTerm(x, t), e.intTerm(y, t))
		case *Term:
			return e.tf.Ite(c, e.intTerm(x, t), y)
		}
	case *Term:
		switch y := b.(type) {
		case *Term:
			if x.Sort == y.Sort && x.W == y.W {
				r := e.tf.Ite(c, x, y)
				if r.Sort == SBool {
					return e.simpBool(r)
				}
				return r
			}
		case bool:
			return e.simpBool(e.tf.Ite(c, x, e.tf.Bool(y)))
		case uint64:
			return e.tf.Ite(c, x, e.intTerm(y, t))
		case float64:
			if x.Sort == SFP {
				return e.tf.Ite(c, x, e.tf.FP(y))
			}
		}
	case float64:
		switch y := b.(type) {
		case float64:
			if x == y && (x != 0 || (1/x > 0) == (1/y > 0)) {
				return x
			}
			if e.mode == ModeBits {
				return e.tf.Ite(c, e.tf.FP(x), e.tf.FP(y))
			}
			return e.mergeRat(c, e.ratOf(x), e.ratOf(y))
		case *Term:
			return e.tf.Ite(c, e.tf.FP(x), y)
		case *Rat:
			return e.mergeRat(c, e.ratOf(x), y)
		}
	case *Rat:
		switch y := b.(type) {
		case *Rat:
			return e.mergeRat(c, x, y)
		case float64:
			return e.mergeRat(c, x, e.ratOf(y))
		}
	case string:
		if y, ok := b.(string); ok && x == y {
			return x
		}
	case Array:
		if y, ok := b.(Array); ok && len(x) == len(y) {
			var et types.Type
			if at, ok := typeUnder[*types.Array](t); ok {
				et = at.Elem()
			}
			r := make(Array, len(x))
			for i := range x {
				r[i] = e.mergeVal(c, x[i], y[i], et)
			}
			return r
		}
	case Struct:
		if y, ok := b.(Struct); ok && len(x) == len(y) {
			st, isSt := typeUnder[*types.Struct](t)
			r := make(Struct, len(x))
			for i := range x {
				var ft types.Type
				if isSt {
					ft = st.Field(i).Type()
				}
				r[i] = e.mergeVal(c, x[i], y[i], ft)
			}
			return r
		}
	case Tuple:
		if y, ok := b.(Tuple); ok && len(x) == len(y) {
			tt, isT := t.(*types.Tuple)
			r := make(Tuple, len(x))
			for i := range x {
				var ft types.Type
				if isT {
					ft = tt.At(i).Type()
				}
				r[i] = e.mergeVal(c, x[i], y[i], ft)
			}
			return r
		}
	case *Value:
		if y, ok := b.(*Value); ok && x == y {
			return x
		}
	case nil:
		if b == nil {
			return nil
		}
	}
	panic(specAbort{"values cannot be merged"})
}

func (e *Exec) mergeRat(c *Term, x, y *Rat) Value {
	if x.Scaled != nil || y.Scaled != nil {
		panic(specAbort{"abstract float in merge"})
	}
	if x.Den.Cmp(y.Den) != 0 {
		panic(specAbort{"rationals with different denominators in merge"})
	}
	return &Rat{Num: e.tf.Ite(c, x.Num, y.Num), Den: x.Den, Inexact: x.Inexact || y.Inexact}
}
