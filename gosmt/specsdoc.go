package main

import (
	"fmt"
	"sort"
)

// cmdSpecs prints the registered obligations as a markdown table (used to keep DESIGN.md in step with the code).
func cmdSpecs() int {
	sp := propSpecs()
	ids := make([]string, 0, len(sp))
	for id := range sp {
		ids = append(ids, id)
	}
	sort.Strings(ids)
	for _, id := range ids {
		s := sp[id]
		fmt.Printf("\n**%s**\n\n| obligation (harness) | pkg | mode | tier | what | bounds |\n|---|---|---|---|---|---|\n", id)
		for _, o := range s.Obligations {
			if o.Tiers == "experimental" {
				continue
			}
			t := o.Tiers
			if t == "" {
				t = "both"
			}
			in := ""
			if o.Internal {
				in = " (internal tier)"
			}
			fmt.Printf("| `%s`%s | %s | %s | %s | %s | %s |\n", o.Harness, in, o.Pkg, o.Mode, t, o.Desc, o.Bounds)
		}
	}
	return 0
}
