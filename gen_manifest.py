#!/usr/bin/env python3
# Regenerates MANIFEST.json from the table below (kept in one place so it is always valid).
import json
CLAIMED = {
 "C02": dict(text="Bounded symbolic model checking of the real routing code: (O-0) lineIntersects is proved equal to an exact closed-segment/half-open-box oracle for all integer coordinates |c|<=2^60 (unbounded-integer SMT, 128-bit arithmetic of the kernel modelled exactly); (O-1) children extents tile the parent at its centre for every level pair, pixel size and address; (O-2) one quadtree descent step from an arbitrary parent with arbitrary occupancy and arbitrary segment returns exactly the occupied children met, in order of travel. With the paper induction over levels (DESIGN.md) this gives the routing statement for every depth. Recorded F1 witnesses are re-run natively on every run.",
             note="Trusted: go/ssa, my SSA->SMT translation (replay + shadow validation), Z3; induction over quadtree levels is a paper argument; O-2 runs with lineIntersects replaced by its oracle, justified by O-0 in the same run. Internal-tier harnesses (unexported functions): skipped and reported if they stop type-checking.",
             design="4 C02", technique="symbolic execution of go/ssa to SMT-LIB2 (nonlinear integer arithmetic), Z3; native replay"),
 "C09": dict(text="Bounded symbolic model checking of InsertPoint/InsertCoord: for every accepted built-in tile matrix set x tile matrix id (quick: ids 0, mid, max) and for synthetic grids with zero/negative/fractional/large origins, for every integer point outside the grid (any distance, |c|<2^61) or within 2-3 pixels of a border inside it: accepted <=> inside the half-open pixel grid, accepted => inside the extent, rejection is an OutsideGridError.",
             note="Trusted: go/ssa, translation, Z3. The float->int step of FromGeomOrd is abstracted in these obligations (quantified over its integer result). Tile matrix set literals are generated natively from the current tree's embedded JSON.",
             design="4 C09", technique="symbolic execution of go/ssa to SMT-LIB2 (linear integer arithmetic with division by constants), Z3; native replay"),
 "C17": dict(text="Bounded symbolic model checking that is exhaustive here: morton.ToZ/FromZ/MustToZ are executed symbolically from go/ssa in 64-bit bit-vector semantics with fully symbolic inputs; loops have constant trip counts, so the seven obligations (round trip, injectivity, onto, ok flag, MustToZ panic, parent, k-level ancestor) are decided by Z3 for all 2^128 input pairs.",
             note="Trusted: go/ssa construction, my SSA->SMT-LIB translation (validated by native replay of every counterexample and by the mutation runs in DESIGN.md), Z3 5.1.0. uint = 64 bit.",
             design="4 C17", technique="symbolic execution of go/ssa to SMT-LIB2 bit-vectors, Z3"),
}
NOT_APPLICABLE = {
 "C12": "substance is the content of a GeoPackage written by SQLite through cgo and SpatiaLite triggers; no symbolic encoding of that code is within reach",
 "C13": "whole-program behaviour through urfave/cli, os, the file system and cgo SQLite; not encodable",
 "C16": "reflection-driven JSON decoding/encoding (encoding/json, marshmallow, validator, defaults, regexp); no symbolic model of reflect within reach",
}
PENDING = ["C01","C03","C04","C05","C06","C07","C08","C09","C10","C11","C14","C15","C18"]
checks=[]
for pid,c in sorted(CLAIMED.items()):
    checks.append({
        "property_id": pid,
        "quick_cmd": f"/verif/check {pid} --tier quick",
        "thorough_cmd": f"/verif/check {pid} --tier thorough",
        "evidence_file": f"/verif/evidence/{pid}.json",
        "replay_cmd_template": "/verif/check --replay {path}",
        "engine": "gosmt",
        "level_claimed": {"category": "model_checking", "text": c["text"], "design_ref": c["design"]},
        "level_note": c["note"],
        "technique": c["technique"],
    })
na=[{"property_id":k,"reason":v} for k,v in sorted(NOT_APPLICABLE.items())]
for p in PENDING:
    if p not in CLAIMED:
        na.append({"property_id":p,"reason":"check not built yet in this session (work in progress; see DESIGN.md section 8)"})
m={
 "version":1,
 "setup_cmd":"cd /verif/gosmt && GOFLAGS=-mod=mod GOPROXY=off GOSUMDB=off GOTOOLCHAIN=local go build -o /verif/bin/gosmt . && /verif/bin/gosmt selftest",
 "hooks":{"guard":"verif","enable":"none needed: harnesses are injected with go/packages overlays and go test -overlay; /repo is not modified by the machinery","baseline_off_cmd":"cd /repo && go test -mod=mod -vet=off -count=1 ./...","source_commits":[],"add_only":True},
 "engines":[{"name":"gosmt","path":"/verif/gosmt","serves_properties":sorted(CLAIMED.keys()),"kind_free_text":"own symbolic executor for go/ssa (x/tools v0.29.0) emitting SMT-LIB2 to persistent z3 5.1.0 processes; concolic path exploration by re-execution; native replay of models via go test -overlay"}],
 "checks":checks,
 "not_applicable":sorted(na,key=lambda x:x["property_id"]),
 "notes":"All checks are /verif/check <id> --tier quick|thorough. Exit 0 = held within the stated bounds, exit 1 + VIOLATION line = replayed counterexample, exit 2 = the check itself could not run (vacuous harness, load error).",
}
json.dump(m,open("/verif/MANIFEST.json","w"),indent=1)
print("claimed:",sorted(CLAIMED.keys()))
