#!/usr/bin/env python3
# Regenerates MANIFEST.json from the table below (kept in one place so it is always valid).
import json
CLAIMED = {
 "C17": dict(text="Bounded symbolic model checking that is exhaustive here: morton.ToZ/FromZ/MustToZ are executed symbolically from go/ssa in 64-bit bit-vector semantics with fully symbolic inputs; loops have constant trip counts, so the seven obligations (round trip, injectivity, onto, ok flag, MustToZ panic, parent, k-level ancestor) are decided by Z3 for all 2^128 input pairs.",
             note="Trusted: go/ssa construction, my SSA->SMT-LIB translation (validated by native replay of every counterexample and by the mutation runs in DESIGN.md), Z3 5.1.0. uint = 64 bit.",
             design="4 C17", technique="symbolic execution of go/ssa to SMT-LIB2 bit-vectors, Z3"),
}
NOT_APPLICABLE = {
 "C12": "substance is the content of a GeoPackage written by SQLite through cgo and SpatiaLite triggers; no symbolic encoding of that code is within reach",
 "C13": "whole-program behaviour through urfave/cli, os, the file system and cgo SQLite; not encodable",
 "C16": "reflection-driven JSON decoding/encoding (encoding/json, marshmallow, validator, defaults, regexp); no symbolic model of reflect within reach",
}
PENDING = ["C01","C02","C03","C04","C05","C06","C07","C08","C09","C10","C11","C14","C15","C18"]
checks=[]
for pid,c in sorted(CLAIMED.items()):
    checks.append({
        "property_id": pid,
        "quick_cmd": f"/verif/check {pid} --tier quick",
        "thorough_cmd": f"/verif/check {pid} --tier thorough",
        "evidence_file": f"/verif/evidence/{pid}.json",
        "replay_cmd_template": "/verif/check --replay {path}",
        "engine": "gosmt",
        "level_claimed": {"category": "model_checking", "text": c["text"], "design_ref": c["design"]},
        "level_note": c["note"],
        "technique": c["technique"],
    })
na=[{"property_id":k,"reason":v} for k,v in sorted(NOT_APPLICABLE.items())]
for p in PENDING:
    if p not in CLAIMED:
        na.append({"property_id":p,"reason":"check not built yet in this session (work in progress; see DESIGN.md section 8)"})
m={
 "version":1,
 "setup_cmd":"cd /verif/gosmt && GOFLAGS=-mod=mod GOPROXY=off GOSUMDB=off GOTOOLCHAIN=local go build -o /verif/bin/gosmt . && /verif/bin/gosmt selftest",
 "hooks":{"guard":"verif","enable":"none needed: harnesses are injected with go/packages overlays and go test -overlay; /repo is not modified by the machinery","baseline_off_cmd":"cd /repo && go test -mod=mod -vet=off -count=1 ./...","source_commits":[],"add_only":True},
 "engines":[{"name":"gosmt","path":"/verif/gosmt","serves_properties":sorted(CLAIMED.keys()),"kind_free_text":"own symbolic executor for go/ssa (x/tools v0.29.0) emitting SMT-LIB2 to persistent z3 5.1.0 processes; concolic path exploration by re-execution; native replay of models via go test -overlay"}],
 "checks":checks,
 "not_applicable":sorted(na,key=lambda x:x["property_id"]),
 "notes":"All checks are /verif/check <id> --tier quick|thorough. Exit 0 = held within the stated bounds, exit 1 + VIOLATION line = replayed counterexample, exit 2 = the check itself could not run (vacuous harness, load error).",
}
json.dump(m,open("/verif/MANIFEST.json","w"),indent=1)
print("claimed:",sorted(CLAIMED.keys()))
