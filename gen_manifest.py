#!/usr/bin/env python3
# Regenerates MANIFEST.json from the table below (kept in one place so it is always valid).
import json
CLAIMED = {
 "C01": dict(text="Bounded symbolic model checking of the whole snap.SnapPolygon pipeline executed from go/ssa: valid triangles with case-split pixel addresses in a 2x2-pixel window and fully symbolic sub-pixel positions (2^-10 px: every vertex-on-border, edge-through-corner and collinear alignment), all four flag combinations; plus a thin-shell-with-hole template over two tile matrices. On every feasible path no two returned edges cross properly. Thorough adds quadrilaterals, 3x3 windows, two levels (time-boxed). Rests on C02 (exact routing, all integers) and on the snap-rounding theorem for larger inputs (not machine-checked).",
             note="Synthetic dyadic grid only (floats exact there; exactness side-conditions checked per operation). lineIntersects replaced by its oracle, justified by C02 O-0 on the same tree. Larger polygons are outside the bound.", design="A, 4 C01"),
 "C02": dict(text="Bounded symbolic model checking of the real routing code: (O-0) lineIntersects is proved equal to an exact closed-segment/half-open-box oracle for all integer coordinates |c|<=2^60 (unbounded-integer SMT, 128-bit arithmetic of the kernel modelled exactly); (O-1) children extents tile the parent at its centre for every level pair, pixel size and address; (O-2) one quadtree descent step from an arbitrary parent with arbitrary occupancy and arbitrary segment returns exactly the occupied children met, in order of travel; (O-5) valid triangles whose routed boundary repeats no centre are returned as exactly that boundary, counter-clockwise. With the paper induction over levels (DESIGN.md) this gives the routing statement for every depth. Recorded F1 witnesses are re-run natively on every run.",
             note="Trusted: go/ssa, my SSA->SMT translation (native replay of every counterexample, shadow validation, translator validation), Z3; induction over quadtree levels is a paper argument; O-2 runs with lineIntersects replaced by its oracle, justified by O-0 in the same run. Internal-tier harnesses are skipped and reported if they stop type-checking.", design="A, 4 C02"),
 "C03": dict(text="(O-1) For every accepted built-in tile matrix set x deepest id x requested id (quick: {0,mid,max}^2) and a symbolic pixel address: pixel extent and centre are exactly min + X*span (+span/2), the pixel grid fills the extent up to the integer truncation, and the float centre is within the deviation DeviationStats reports (+ float noise) of corner + (X+1/2)*cellSize(0)/2^z/16 at both ends of each axis (error linear in X). (O-2/O-3) pipeline runs: every coordinate returned for tile matrix z is exactly a pixel centre of level z+4 of the synthetic grid, for id subsets {1},{0,1},{0,2},{0,1,2}.",
             note="Ideal pixel size taken as cellSize(0)/2^z/16 (the per-level cell sizes of the JSON files are decimal roundings, see DESIGN C03). Internal tier for O-1 (unexported getQuadrantExtentAndCentroid).", design="A, 4 C03"),
 "C04": dict(text="Pipeline runs on valid triangles (all sub-pixel positions): every output vertex is the centre of the pixel of an input vertex; every output edge is an exactly routed edge or straight run of one input ring (hence within half a pixel of an input edge) or passes the direct closed-box distance test. Unit-level obligation on hole matching (catalogues of nested/touching/disjoint shells and holes, every start vertex): each hole attached exactly once to a shell containing it, the smallest such. Thorough adds a fixed-shell/symbolic-hole template with coverage agreement at 49 probe locations farther than one pixel from the boundary (time-boxed).",
             note="Coverage (the 'nothing is lost' part) is only checked in the thorough template and indirectly through C18 area preservation and the unit-level hole matching; polygons beyond the stated sizes are outside.", design="A, 4 C04"),
 "C05": dict(text="Pipeline runs on arbitrary (valid or not) rings: 3 vertices on the 1/8-px lattice (one level) and on pixel borders/corners/centres (two levels), 4 vertices on pixel centres (two levels), a thin-shell-with-hole template and a self-crossing-hole template, each with keep-points-and-lines off and on in the same symbolic run and both winding flags: first ring shell, non-zero-area rings oriented by role and flag, no repeated vertex, >=3 vertices without keep, no empty lists, only requested ids, keep = drop + one- or two-vertex rings.",
             note="Synthetic dyadic grid only: the repeated-vertex lookup on real (non-dyadic) grids (DESIGN F4) is NOT covered by this check.", design="A, 4 C05"),
 "C06": dict(text="Pipeline runs without any validity assumption (rings of 1-2 points, any 3 vertices on the 1/8-px lattice, any 3 vertices on borders/corners/centres with two levels, any 4 vertices on pixel centres, thin-shell-with-hole and self-crossing-hole templates, all flag combinations): no path ends in a panic and none exceeds the instruction budget.",
             note="Running time only as 'instruction budget not exceeded at these sizes'. Deepest level > 32 (Morton range, DESIGN F3) is outside.", design="A, 4 C06"),
 "C07": dict(text="Two executions of SnapPolygon inside one symbolic run: (O-1) the second with a nondeterministic (forward/reversed) iteration order of every map range, at most one reversed range per path; plus a unit-level obligation on hole matching under up to three reversed ranges; (O-2) a valid triangle (all sub-pixel positions) given in either direction; (O-3) the reverse-winding flag only reverses rings of >=3 vertices.",
             note="Map orders other than forward/reversed insertion order per range execution are outside; native replays of order-dependent counterexamples are repeated up to 300 times because the Go runtime randomises.", design="A, 4 C07"),
 "C08": dict(text="Twin executions in one symbolic run: result for a tile matrix alone vs together with another one (pairs {0,1},{0,2},{1,2}) for arbitrary 3-vertex rings on pixel borders/corners/centres and for the thin-shell-with-hole template (shell collapsing at the coarse tile matrix only); result keys are the requested ids.",
             note="Synthetic round grid; NetherlandsRDNewQuad is not run through the pipeline.", design="A, 4 C08"),
 "C09": dict(text="(O-1) InsertPoint/InsertCoord for every accepted built-in tile matrix set x id (quick: ids 0, mid, max) and synthetic grids with zero/negative/fractional/large origins, for every integer point outside the grid (any distance, |c|<2^61) or within 2-3 pixels of a border inside it: accepted <=> inside the half-open pixel grid, accepted => inside the extent, rejection is an OutsideGridError. (O-4) SnapPolygon with vertices up to one pixel outside either grid corner: panic with OutsideGridError by default, empty result when ignoring.",
             note="The float->int step of FromGeomOrd is abstracted in O-1 (quantified over its integer result); the float step itself is not verified (exact-FP queries do not finish).", design="A, 4 C09"),
 "C10": dict(text="processing.ProcessFeatures executed by the interpreter (goroutines, unbuffered channels, WaitGroups modelled) for every stream of up to 2 features (polygon / multipolygon of 1-2 parts / point; thorough: 3) x 1-2 targets (thorough: 3) x every stub snapping outcome per polygon and tile matrix (absent / one / two polygons): each target receives exactly the expected features, in source order, with original (symbolic) attribute values and the geometry computed for its own tile matrix.",
             note="One canonical schedule is executed; other schedules are covered by the Kahn-network argument whose premises are checked on every path's event log (see C11).", design="A, 4 C10"),
 "C11": dict(text="For every path of the C10 exploration the synchronisation events of all goroutines are extracted and two SMT queries over all consistent cuts are discharged: no reachable deadlock, and ProcessFeatures cannot have returned while any synchronisation event of another goroutine is pending; Kahn premises (one sender and one receiver per channel, closed by the sender, no select) are checked on the log; send-on-closed / double close / negative counter would surface as panics. The canonical run additionally asserts that every target has finished when ProcessFeatures returns.",
             note="Data races, goroutines alive after return in the real runtime and GOMAXPROCS effects are NOT covered (outside an event-order encoding). Cut counterexamples are only reported when a native replay (with slowed targets) confirms them.", design="A, 4 C11"),
 "C14": dict(text="IsQuadTree on a tile matrix set of 1..4 matrices with symbolic 64-bit widths/heights/tile sizes, symbolic float64 origins, cell-size ratios from boundary values, and one position with free id string / corner / variable widths / id gap: acceptance implies every quadtree condition; validation never panics. Each of the 14 built-in sets: rejected, or accepted with pixel size = cell size/16 (1e-6) at every id.",
             note="Non-nil PointOfOrigin assumed (decoder guarantees it); ids assumed to start at 0; fully symbolic cell sizes only in the time-boxed thorough tier.", design="A, 4 C14"),
 "C15": dict(text="Every tile of every matrix up to 16x16 tiles and 64 border tiles of every larger matrix of every built-in set without variable widths: corner -> centre -> same tile; half a tile outside -> no tile; bounding box = corner of tile (0,0) .. corner of tile (w,h) up to float resolution; ToNative accepts one past the end and rejects beyond. Executed through the interpreter in exact machine semantics with case-split tile addresses; thorough adds solver-decided symbolic tile slices (time-boxed).",
             note="Reduced bound: only tile centres and half-tile-outside points; arbitrary interior points (DESIGN F6, 1-ulp border effects) are NOT covered.", design="A, 4 C15"),
 "C17": dict(text="Exhaustive within the 64-bit word: morton.ToZ/FromZ/MustToZ executed symbolically in bit-vector semantics with fully symbolic inputs (loops have constant trip counts): round trip, injectivity, onto, ok flag, MustToZ panic, parent and k-level ancestor relations are decided by Z3 for all 2^128 input pairs.",
             note="Trusted: go/ssa, translation, Z3. uint = 64 bit.", design="4 C17"),
 "C18": dict(text="Pipeline runs on valid triangles (all sub-pixel positions) whose exactly routed boundary visits no centre more than twice: every returned edge is a routed edge or straight run, holes inside or on their shell, signed area preserved; unit-level obligation on hole matching for configurations valid polygons produce. Thorough adds two levels, quadrilaterals and pentagons (time-boxed).",
             note="The interesting collapsing shapes (comb teeth, pinched necks) need more vertices than the quick bound reaches; the unit-level hole matching and the templates cover part of that space.", design="A, 4 C18"),
}
NOT_APPLICABLE = {
 "C12": "substance is the content of a GeoPackage written by SQLite through cgo and SpatiaLite triggers; no symbolic encoding of that code is within reach",
 "C13": "whole-program behaviour through urfave/cli, os, the file system and cgo SQLite; not encodable",
 "C16": "reflection-driven JSON decoding/encoding (encoding/json, marshmallow, validator, defaults, regexp); no symbolic model of reflect within reach",
}
PENDING = []
checks=[]
for pid,c in sorted(CLAIMED.items()):
    checks.append({
        "property_id": pid,
        "quick_cmd": f"/verif/check {pid} --tier quick",
        "thorough_cmd": f"/verif/check {pid} --tier thorough",
        "evidence_file": f"/verif/evidence/{pid}.json",
        "replay_cmd_template": "/verif/check --replay {path}",
        "engine": "gosmt",
        "level_claimed": {"category": "model_checking", "text": c["text"], "design_ref": c["design"]},
        "level_note": c["note"],
        "technique": c.get("technique", "symbolic execution of go/ssa to SMT-LIB2 (integers / bit-vectors / IEEE floats), Z3 5.1.0; native replay of counterexamples"),
    })
na=[{"property_id":k,"reason":v} for k,v in sorted(NOT_APPLICABLE.items())]
for p in PENDING:
    if p not in CLAIMED:
        na.append({"property_id":p,"reason":"check not built yet in this session (work in progress; see DESIGN.md section 8)"})
m={
 "version":1,
 "setup_cmd":"cd /verif/gosmt && GOFLAGS=-mod=mod GOPROXY=off GOSUMDB=off GOTOOLCHAIN=local go build -o /verif/bin/gosmt . && /verif/bin/gosmt selftest",
 "hooks":{"guard":"verif","enable":"none needed: harnesses are injected with go/packages overlays and go test -overlay; /repo is not modified by the machinery","baseline_off_cmd":"cd /repo && go test -mod=mod -vet=off -count=1 ./...","source_commits":[],"add_only":True},
 "engines":[{"name":"gosmt","path":"/verif/gosmt","serves_properties":sorted(CLAIMED.keys()),"kind_free_text":"own symbolic executor for go/ssa (x/tools v0.29.0) emitting SMT-LIB2 to persistent z3 5.1.0 processes; concolic path exploration by re-execution; native replay of models via go test -overlay"}],
 "checks":checks,
 "not_applicable":sorted(na,key=lambda x:x["property_id"]),
 "notes":"All checks are /verif/check <id> --tier quick|thorough. Exit 0 = held within the stated bounds, exit 1 + VIOLATION line = replayed counterexample, exit 2 = the check itself could not run (vacuous harness, load error).",
}
json.dump(m,open("/verif/MANIFEST.json","w"),indent=1)
print("claimed:",sorted(CLAIMED.keys()))
