package morton

import "math"

var verifHarnesses = map[string]func(){
	"VerifC17RoundTrip":  VerifC17RoundTrip,
	"VerifC17Onto":       VerifC17Onto,
	"VerifC17OkFlag":     VerifC17OkFlag,
	"VerifC17Parent":     VerifC17Parent,
	"VerifC17ParentIter": VerifC17ParentIter,
	"VerifC17MustToZ":    VerifC17MustToZ,
	"VerifC17Injective":  VerifC17Injective,
}

// O-1: decoding returns the address a key was made from (all 2^64 pairs of 32-bit addresses).
func VerifC17RoundTrip() {
	x := uint(verifNondetUint("x", 0, math.MaxUint32))
	y := uint(verifNondetUint("y", 0, math.MaxUint32))
	z, ok := ToZ(x, y)
	verifAssert(ok, "C17.O1.ok")
	gx, gy := FromZ(z)
	verifCover("roundtrip")
	verifAssert(gx == x && gy == y, "C17.O1.roundtrip")
}

// O-1b: keys are distinct for distinct pairs (stated directly, two independent pairs).
func VerifC17Injective() {
	x1 := uint(verifNondetUint("x1", 0, math.MaxUint32))
	y1 := uint(verifNondetUint("y1", 0, math.MaxUint32))
	x2 := uint(verifNondetUint("x2", 0, math.MaxUint32))
	y2 := uint(verifNondetUint("y2", 0, math.MaxUint32))
	verifAssume(x1 != x2 || y1 != y2)
	z1, _ := ToZ(x1, y1)
	z2, _ := ToZ(x2, y2)
	verifCover("injective")
	verifAssert(z1 != z2, "C17.O1b.injective")
}

// O-2: every 64-bit key is the key of the address it decodes to.
func VerifC17Onto() {
	z := uint(verifNondetUint("z", 0, math.MaxUint64))
	x, y := FromZ(z)
	verifAssert(x <= math.MaxUint32 && y <= math.MaxUint32, "C17.O2.range")
	z2, ok := ToZ(x, y)
	verifCover("onto")
	verifAssert(ok && z2 == z, "C17.O2.onto")
}

// O-3: addresses that do not fit in 32 bits are reported, exactly those.
func VerifC17OkFlag() {
	x := uint(verifNondetUint("x", 0, math.MaxUint64))
	y := uint(verifNondetUint("y", 0, math.MaxUint64))
	_, ok := ToZ(x, y)
	verifCover("okflag")
	verifAssert(ok == (x <= math.MaxUint32 && y <= math.MaxUint32), "C17.O3.okflag")
}

// O-3b: MustToZ panics exactly when the address is not encodable, and agrees with ToZ otherwise.
func VerifC17MustToZ() {
	x := uint(verifNondetUint("x", 0, math.MaxUint64))
	y := uint(verifNondetUint("y", 0, math.MaxUint64))
	fits := x <= math.MaxUint32 && y <= math.MaxUint32
	panicked := false
	var z Z
	func() {
		defer func() {
			if recover() != nil {
				panicked = true
			}
		}()
		z = MustToZ(x, y)
	}()
	verifCover("mustToZ")
	verifAssert(panicked == !fits, "C17.O3b.panics-iff-unencodable")
	if !panicked {
		z2, _ := ToZ(x, y)
		verifAssert(z == z2, "C17.O3b.agrees")
	}
}

// O-4: the key of the parent pixel is the key with its two lowest bits removed.
func VerifC17Parent() {
	x := uint(verifNondetUint("x", 0, math.MaxUint32))
	y := uint(verifNondetUint("y", 0, math.MaxUint32))
	z, _ := ToZ(x, y)
	pz, _ := ToZ(x>>1, y>>1)
	verifCover("parent")
	verifAssert(pz == z>>2, "C17.O4.parent")
	// and the two removed bits are the position inside the parent
	verifAssert(z&3 == (x&1)|((y&1)<<1), "C17.O4.childbits")
}

// O-4b: iterated k levels up, as the point index derives coarser addresses (x / 2^k).
func VerifC17ParentIter() {
	x := uint(verifNondetUint("x", 0, math.MaxUint32))
	y := uint(verifNondetUint("y", 0, math.MaxUint32))
	k := verifConcretizeUint(uint(verifNondetUint("k", 0, 32)))
	z, _ := ToZ(x, y)
	pz, _ := ToZ(x/(1<<k), y/(1<<k))
	verifCover("parent-iter")
	verifAssert(pz == z>>(2*k), "C17.O4b.ancestor")
}
