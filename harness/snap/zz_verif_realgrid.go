package snap

import (
	"github.com/go-spatial/geom"
	"github.com/pdok/texel/intgeom"
	"github.com/pdok/texel/tms20"
)

func init() {
	verifHarnesses["VerifC05RealGridFigure8RD"] = VerifC05RealGridFigure8RD
	verifHarnesses["VerifC05RealGridFigure8WebMercator"] = VerifC05RealGridFigure8WebMercator
	verifHarnesses["VerifC05RealGridFigure8WebMercatorBoth"] = VerifC05RealGridFigure8WebMercatorBoth
}

// O-7 (public API, exact machine semantics): on a real grid, a ring that passes through one pixel centre twice
// (a figure of eight sharing a vertex) is split there, so that no returned ring visits a vertex twice. The solver
// chooses the shared pixel among those whose int -> float -> int round trip is not exact (both ordinates off, or
// one ordinate off by more than a unit): the situation in which a lookup of the float vertex among integer points
// goes wrong. The pipeline then runs on the concrete polygon.
func verifC05RealGridFigure8(set string, id int, kinds int64) {
	tms := verifTMS(set)
	bl, tr, err := tms.MatrixBoundingBox(0)
	verifAssume(err == nil)
	minX, minY := intgeom.FromGeomOrd(bl[0]), intgeom.FromGeomOrd(bl[1])
	maxX := intgeom.FromGeomOrd(tr[0])
	tw := tms.TileMatrices[0].TileWidth
	l := uint(0)
	for (uint(1) << l) < tw {
		l++
	}
	level := uint(id) + l + 4
	n := int64(1) << level
	res := (maxX - minX) / n
	X := verifNondetInt("X", 0, n-8)
	Y := verifNondetInt("Y", 0, n-8)
	c := intgeom.Point{minX + X*res + res/2, minY + Y*res + res/2}
	r := intgeom.FromGeomPoint(c.ToGeomPoint())
	if verifConcretizeInt(int(verifNondetInt("kind", 1-kinds, 1))) == 0 {
		verifAssume(r[0] != c[0] && r[1] != c[1])
	} else {
		d := r[0] - c[0]
		verifAssume(d > 1 || d < -1)
	}
	verifCover("conversion-error-found")
	X, Y = verifConcretizeInt64(X), verifConcretizeInt64(Y)
	centre := func(dx, dy int64) [2]float64 {
		return intgeom.Point{minX + (X+dx)*res + res/2, minY + (Y+dy)*res + res/2}.ToGeomPoint()
	}
	ring := [][2]float64{centre(0, 0), centre(3, 0), centre(3, 3), centre(0, 0), centre(0, 5), centre(3, 6)}
	for _, cfg := range verifCfgs() {
		res, panicked := verifSnapCatch(geom.Polygon{ring}, tms, []tms20.TMID{id}, cfg)
		verifAssert(!panicked, "C05.O7.no-panic")
		if panicked {
			continue
		}
		for _, p := range res[id] {
			for _, rg := range p {
				dup := false
				for i := range rg {
					for j := i + 1; j < len(rg); j++ {
						if rg[i] == rg[j] {
							dup = true
						}
					}
				}
				verifAssert(!dup, "C05.O7.no-vertex-twice-on-real-grid")
			}
		}
	}
}

func VerifC05RealGridFigure8RD()          { verifC05RealGridFigure8("NetherlandsRDNewQuad", 14, 1) }
// quick: only the "one ordinate off by more than a unit" class (a one-dimensional search)
func VerifC05RealGridFigure8WebMercator() { verifC05RealGridFigure8("WebMercatorQuad", 17, 0) }

// thorough: both classes
func VerifC05RealGridFigure8WebMercatorBoth() { verifC05RealGridFigure8("WebMercatorQuad", 17, 1) }
