package snap

import (
	"math"
	"sort"

	"github.com/go-spatial/geom"
	"github.com/pdok/texel/tms20"
)

var verifHarnesses = map[string]func(){}

// verifSyntheticTMS: one root tile of 16 units, 1-pixel tiles, bottom-left origin (0,0): tile matrix id z is a grid of
// 16*2^z pixels per axis of 2^-z units each (the same family the repository's tests use).
func verifSyntheticTMS(deepest int) tms20.TileMatrixSet {
	origin := tms20.TwoDPoint([2]float64{0, 0})
	tms := tms20.TileMatrixSet{
		CRS:          verifCRS{"", "", "", ""},
		OrderedAxes:  []string{"X", "Y"},
		TileMatrices: map[tms20.TMID]tms20.TileMatrix{},
	}
	for id := 0; id <= deepest; id++ {
		cell := 16.0 / math.Ldexp(1, id)
		tms.TileMatrices[id] = tms20.TileMatrix{
			ID: verifItoa(id), ScaleDenominator: cell / tms20.StandardizedRenderingPixelSize, CellSize: cell,
			CornerOfOrigin: tms20.BottomLeft, PointOfOrigin: &origin,
			TileWidth: 1, TileHeight: 1, MatrixWidth: 1, MatrixHeight: 1,
		}
	}
	return tms
}

func verifItoa(i int) string {
	if i == 0 {
		return "0"
	}
	neg := i < 0
	if neg {
		i = -i
	}
	s := ""
	for i > 0 {
		s = string(rune('0'+i%10)) + s
		i /= 10
	}
	if neg {
		s = "-" + s
	}
	return s
}

// verifFormat renders a result canonically: ids ascending, coordinates as integers in units of 2^-10.
func verifFormat(res map[tms20.TMID][]geom.Polygon) string {
	ids := make([]int, 0, len(res))
	for id := range res {
		ids = append(ids, id)
	}
	sort.Ints(ids)
	s := ""
	for _, id := range ids {
		s += "id" + verifItoa(id) + ":"
		for _, p := range res[id] {
			s += "P"
			for _, r := range p {
				s += "("
				for _, v := range r {
					s += verifItoa(int(v[0]*1024)) + "," + verifItoa(int(v[1]*1024)) + " "
				}
				s += ")"
			}
		}
		s += ";"
	}
	return s
}

// verifSnapCatch calls SnapPolygon and reports a panic as a value.
func verifSnapCatch(p geom.Polygon, tms tms20.TileMatrixSet, ids []tms20.TMID, cfg Config) (res map[tms20.TMID][]geom.Polygon, panicked bool) {
	defer func() {
		if r := recover(); r != nil {
			panicked = true
		}
	}()
	return SnapPolygon(p, tms, ids, cfg), false
}
