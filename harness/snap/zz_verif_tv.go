package snap

import (
	"github.com/go-spatial/geom"
	"github.com/pdok/texel/tms20"
)

func init() {
	verifHarnesses["VerifTVSnap"] = VerifTVSnap
}

type verifLCG struct{ s uint64 }

func (l *verifLCG) next(n int) int {
	l.s = l.s*6364136223846793005 + 1442695040888963407
	return int((l.s >> 33) % uint64(n))
}

// VerifTVSnap (translator validation): pseudo-random and hand-picked polygons are snapped; the canonical rendering of
// all results is emitted. The interpreter (concrete run) and the natively compiled code must emit the same string.
func VerifTVSnap() {
	tms := verifSyntheticTMS(2)
	out := ""
	g := &verifLCG{s: 12345}
	for c := 0; c < 120; c++ {
		nv := 3 + g.next(8)
		win := 1 + g.next(4)
		bx, by := g.next(16-win), g.next(16-win)
		den := []int{1, 2, 4, 8}[g.next(4)]
		ring := make([][2]float64, nv)
		for i := range ring {
			ring[i] = [2]float64{float64(bx) + float64(g.next(win*den+1))/float64(den), float64(by) + float64(g.next(win*den+1))/float64(den)}
			if ring[i][0] >= 16 {
				ring[i][0] = 15.5
			}
			if ring[i][1] >= 16 {
				ring[i][1] = 15.5
			}
		}
		poly := geom.Polygon{ring}
		if g.next(3) == 0 {
			hole := make([][2]float64, 3+g.next(3))
			for i := range hole {
				hole[i] = [2]float64{float64(bx) + float64(g.next(win*den+1))/float64(den), float64(by) + float64(g.next(win*den+1))/float64(den)}
				if hole[i][0] >= 16 {
					hole[i][0] = 15.5
				}
				if hole[i][1] >= 16 {
					hole[i][1] = 15.5
				}
			}
			poly = append(poly, hole)
		}
		ids := [][]tms20.TMID{{0}, {1}, {0, 1}, {0, 2}, {0, 1, 2}}[g.next(5)]
		cfg := Config{KeepPointsAndLines: g.next(2) == 0, ReverseWindingOrder: g.next(3) == 0}
		res, panicked := verifSnapCatch(poly, tms, ids, cfg)
		if panicked {
			out += "PANIC|"
		} else {
			out += verifFormat(res) + "|"
		}
	}
	// hand-picked: dense star with repeated centres (F5 shape), spikes, zig-zags, degenerate rings
	special := []geom.Polygon{
		{{{8.5, 9.5}, {8.5, 8.5}, {8.5, 7.5}, {8.6, 8.4}, {8.4, 7.6}, {8.5, 8.6}, {8.4, 7.4}, {9.5, 7.5}, {8.6, 7.6}, {8.6, 8.6}}},
		{{{1, 1}, {5, 1}, {5, 5}, {3, 5}, {3, 9}, {3, 5}, {1, 5}}},
		{{{1, 1}, {2, 1}, {1, 1}, {2, 1}, {2, 2}}},
		{{{1, 1}, {1, 1}, {1, 1}}},
		{{{1, 1}, {4, 4}}},
		{{{1, 1}}},
		{{{0, 0}, {15.9, 0}, {15.9, 15.9}, {0, 15.9}}, {{4, 4}, {4, 8}, {8, 8}, {8, 4}}, {{9, 9}, {9, 10}, {10, 10}}},
		{{{2, 2}, {6, 2}, {6, 2.2}, {2, 2.2}}},
		{{{2, 2}, {10, 2}, {10, 6}, {6.1, 6}, {6.1, 2.1}, {5.9, 2.1}, {5.9, 6}, {2, 6}}},
	}
	for _, poly := range special {
		for _, cfg := range []Config{{}, {KeepPointsAndLines: true}, {ReverseWindingOrder: true}} {
			res, panicked := verifSnapCatch(poly, tms, []tms20.TMID{0, 1}, cfg)
			if panicked {
				out += "PANIC|"
			} else {
				out += verifFormat(res) + "|"
			}
		}
	}
	verifEmit(out)
}
