package snap

// Reference snap rounding ("routed boundary") computed from the exact oracle: used by C02 O-5, C18, C04.

type verifPix struct{ x, y int64 } // pixel address at some tile matrix

// verifPixOf returns the (case-split) pixel address of lattice point p at tile matrix id.
func verifPixOf(p verifPt, id int) verifPix {
	s := verifPixelSize(id)
	return verifPix{verifConcretizeInt64(p[0] / s), verifConcretizeInt64(p[1] / s)}
}

func verifCentreOfPix(h verifPix, id int) verifPt {
	s := verifPixelSize(id)
	return verifPt{h.x*s + s/2, h.y*s + s/2}
}

// verifHotPixels: the pixels (at tile matrix id) of all vertices of all rings, without duplicates.
func verifHotPixels(L [][]verifPt, id int) []verifPix {
	var hot []verifPix
	for _, r := range L {
		for _, p := range r {
			h := verifPixOf(p, id)
			dup := false
			for _, o := range hot {
				if o == h {
					dup = true
				}
			}
			if !dup {
				hot = append(hot, h)
			}
		}
	}
	return hot
}

// verifRoute: centres of the hot pixels met by the closed edge a->b, in order of travel (exact).
func verifRoute(a, b verifPt, hot []verifPix, id int) []verifPt {
	s := verifPixelSize(id)
	type hit struct {
		c verifPt
		e verifBound
	}
	var hits []hit
	for _, h := range hot {
		minx, miny := h.x*s, h.y*s
		if verifConcretizeBool(verifMeets(a[0], a[1], b[0], b[1], minx, miny, minx+s, miny+s)) {
			hits = append(hits, hit{verifCentreOfPix(h, id), verifEntry(a[0], a[1], b[0], b[1], minx, miny, minx+s, miny+s)})
		}
	}
	// insertion sort by entry parameter (ties cannot occur between distinct pixels except closed-before-open)
	for i := 1; i < len(hits); i++ {
		for j := i; j > 0 && verifConcretizeBool(verifBefore(hits[j].e, hits[j-1].e)); j-- {
			hits[j], hits[j-1] = hits[j-1], hits[j]
		}
	}
	out := make([]verifPt, len(hits))
	for i := range hits {
		out[i] = hits[i].c
	}
	return out
}

// verifRoutedRing: concatenation of the routes of all edges of a ring, consecutive duplicates joined,
// closing duplicate removed. The ring is taken in the direction given.
func verifRoutedRing(r []verifPt, hot []verifPix, id int) []verifPt {
	var out []verifPt
	n := len(r)
	for i := 0; i < n; i++ {
		if n == 1 && i > 0 {
			break
		}
		route := verifRoute(r[i], r[(i+1)%n], hot, id)
		for _, c := range route {
			if len(out) == 0 || out[len(out)-1] != c {
				out = append(out, c)
			}
		}
	}
	if len(out) > 1 && out[0] == out[len(out)-1] {
		out = out[:len(out)-1]
	}
	return out
}

// verifMaxMultiplicity: how often the most visited centre occurs in the routed ring.
func verifMaxMultiplicity(rr []verifPt) int {
	m := 0
	for i := range rr {
		c := 0
		for j := range rr {
			if rr[i] == rr[j] {
				c++
			}
		}
		if c > m {
			m = c
		}
	}
	return m
}

// verifCyclicEqual: a equals b up to rotation (same direction).
func verifCyclicEqual(a, b []verifPt) bool {
	if len(a) != len(b) {
		return false
	}
	n := len(a)
	if n == 0 {
		return true
	}
	for s := 0; s < n; s++ {
		ok := true
		for i := 0; i < n; i++ {
			if a[i] != b[(i+s)%n] {
				ok = false
				break
			}
		}
		if ok {
			return true
		}
	}
	return false
}

func verifReversed(a []verifPt) []verifPt {
	out := make([]verifPt, len(a))
	for i := range a {
		out[len(a)-1-i] = a[i]
	}
	return out
}
