package snap

import (
	"github.com/go-spatial/geom"
	"github.com/pdok/texel/tms20"
)

func init() {
	verifHarnesses["VerifC01Tri2x2"] = VerifC01Tri2x2
}

// verifCfg: all flag combinations, case-split.
func verifCfg() Config {
	return Config{
		KeepPointsAndLines:  verifConcretizeBool(verifNondetBool("keep")),
		ReverseWindingOrder: verifConcretizeBool(verifNondetBool("reverse")),
	}
}

// verifCfgs: all four flag combinations, to be looped over inside one path (the geometric case analysis is shared).
func verifCfgs() []Config {
	return []Config{{}, {KeepPointsAndLines: true}, {ReverseWindingOrder: true}, {KeepPointsAndLines: true, ReverseWindingOrder: true}}
}

// verifC01Body: valid single-ring polygon => no two returned edges of a tile matrix cross properly.
func verifC01Body(n, wx, wy, W, mode, idsel int) {
	ring, L := verifRing("v", n, wx, wy, W, mode)
	verifAssume(verifRingSimple(L))
	ids := verifIDs(idsel)
	for _, cfg := range verifCfgs() {
		verifC01One(ring, ids, cfg)
	}
}

func verifC01One(ring [][2]float64, ids []tms20.TMID, cfg Config) {
	res, panicked := verifSnapCatch(geom.Polygon{ring}, verifSyntheticTMS(2), ids, cfg)
	verifAssert(!panicked, "C01.O1.no-panic")
	if panicked {
		return
	}
	verifCover("snapped")
	for _, id := range ids {
		es := verifEdgesOf(res[id])
		if len(es) > 0 {
			verifCover("has-geometry")
		}
		ok := true
		for i := 0; i < len(es); i++ {
			for j := i + 1; j < len(es); j++ {
				if verifProperCross(es[i].a, es[i].b, es[j].a, es[j].b) {
					ok = false
				}
			}
		}
		verifAssert(ok, "C01.O1.no-proper-crossing")
	}
}

func VerifC01Tri2x2() { verifC01Body(3, 7, 7, 2, verifFull, 0) }

func init() {
	verifHarnesses["VerifC01Quad2x2"] = VerifC01Quad2x2
	verifHarnesses["VerifC01Tri3x3"] = VerifC01Tri3x3
	verifHarnesses["VerifC01Tri2x2TwoLevels"] = VerifC01Tri2x2TwoLevels
}

func VerifC01Quad2x2()         { verifC01Body(4, 7, 7, 2, verifFull, 0) }
func VerifC01Tri3x3()          { verifC01Body(3, 7, 7, 3, verifFull, 0) }
func VerifC01Tri2x2TwoLevels() { verifC01Body(3, 7, 7, 2, verifFull, 2) }
