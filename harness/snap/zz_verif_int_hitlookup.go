package snap

import (
	"github.com/pdok/texel/intgeom"
)

func init() {
	verifHarnesses["VerifC05HitLookupRD"] = VerifC05HitLookupRD
	verifHarnesses["VerifC05HitLookupWebMercator"] = VerifC05HitLookupWebMercator
}

// O-7 (internal tier, exact machine semantics): on a real grid, the float emitted for the centre of a pixel of the
// requested level is found again by the repeated-vertex lookup that ring splitting uses. The solver is asked for
// pixels whose float round trip (int -> float64/1e10 -> *1e10 -> int) is off (in both ordinates, or by more than one
// unit in one ordinate); for each pixel it finds, the lookup is executed on the concrete values.
func verifC05HitLookup(set string, id int) {
	tms := verifTMS(set)
	bl, tr, err := tms.MatrixBoundingBox(0)
	verifAssume(err == nil)
	minX, minY := intgeom.FromGeomOrd(bl[0]), intgeom.FromGeomOrd(bl[1])
	maxX := intgeom.FromGeomOrd(tr[0])
	tw := tms.TileMatrices[0].TileWidth
	l := uint(0)
	for (uint(1) << l) < tw {
		l++
	}
	level := uint(id) + l + 4
	n := int64(1) << level
	res := (maxX - minX) / n
	X := verifNondetInt("X", 0, n-1)
	Y := verifNondetInt("Y", 0, n-1)
	c := intgeom.Point{minX + X*res + res/2, minY + Y*res + res/2}
	r := intgeom.FromGeomPoint(c.ToGeomPoint())
	kind := verifConcretizeInt(int(verifNondetInt("kind", 0, 1)))
	if kind == 0 {
		verifAssume(r[0] != c[0] && r[1] != c[1])
	} else {
		d := r[0] - c[0]
		verifAssume(d > 1 || d < -1)
	}
	verifCover("conversion-error-found")
	// continue on concrete values of this pixel
	X, Y = verifConcretizeInt64(X), verifConcretizeInt64(Y)
	c = intgeom.Point{minX + X*res + res/2, minY + Y*res + res/2}
	hitMultiple := map[intgeom.Point][]int{c: {0}}
	verifAssert(isHitMultiple(hitMultiple, c.ToGeomPoint(), 0), "C05.O7.repeated-vertex-lookup-finds-the-emitted-centre")
}

func VerifC05HitLookupRD()          { verifC05HitLookup("NetherlandsRDNewQuad", 14) }
func VerifC05HitLookupWebMercator() { verifC05HitLookup("WebMercatorQuad", 17) }
