package snap

import "github.com/go-spatial/geom"

// Five- and six-vertex rings on the half lattice {1/4,3/4} (the centres of the next finer tile matrix's pixels): the
// smallest rings that produce thin bands with a closing slit, Z shapes and walks longer than twice the vertex count.
// All of these are thorough-tier, time-boxed obligations (random exploration order when the box is hit).

func init() {
	verifHarnesses["VerifC18Pent2x2Half"] = VerifC18Pent2x2Half
	verifHarnesses["VerifC18Hex2x2Half"] = VerifC18Hex2x2Half
	verifHarnesses["VerifC18ThinValid5"] = VerifC18ThinValid5
	verifHarnesses["VerifC18ThinValid6"] = VerifC18ThinValid6
	verifHarnesses["VerifC04Pent2x2Half"] = VerifC04Pent2x2Half
	verifHarnesses["VerifC01Pent2x2Half"] = VerifC01Pent2x2Half
	verifHarnesses["VerifC05Pent2x2Half"] = VerifC05Pent2x2Half
}

func VerifC18Pent2x2Half() { verifC18Body(5, 7, 7, 2, verifHalf, 0) }
func VerifC18Hex2x2Half()  { verifC18Body(6, 7, 7, 2, verifHalf, 0) }
func VerifC04Pent2x2Half() { verifC04Body(5, 7, 7, 2, verifHalf, 0) }
func VerifC01Pent2x2Half() { verifC01Body(5, 7, 7, 2, verifHalf, 0) }

func VerifC05Pent2x2Half() { verifC05Body([]int{5}, 7, 7, 2, verifHalf, 0) }

// valid rings in a window of 2x1 pixels (4x2 pixels of the finer tile matrix), both tile matrices requested
func verifC18ThinValid(n int) {
	ring, L := verifRingWH("t", n, 7, 7, 2, 1, verifHalf)
	verifAssume(verifRingSimple(L))
	ids := verifIDs(2)
	for _, reverse := range []bool{false, true} {
		verifC18One(ring, L, ids, Config{ReverseWindingOrder: reverse})
	}
}

func VerifC18ThinValid5() { verifC18ThinValid(5) }
func VerifC18ThinValid6() { verifC18ThinValid(6) }

// ---------------------------------------------------------------- long rings on few pixel centres (zig-zags, repeated back-and-forth runs)

func init() {
	verifHarnesses["VerifC06Zigzag8Row"] = VerifC06Zigzag8Row
	verifHarnesses["VerifC06Zigzag7Square"] = VerifC06Zigzag7Square
	verifHarnesses["VerifC06Zigzag6Square"] = VerifC06Zigzag6Square
	verifHarnesses["VerifC05Zigzag7Row"] = VerifC05Zigzag7Row
	verifHarnesses["VerifC05Zigzag6Square"] = VerifC05Zigzag6Square
}

// verifCentreRing: any ring of n vertices on the pixel centres of a Ww x Wh window (every vertex sequence: repeated
// vertices, spikes, zig-zags of any period that fits).
func verifCentreRing(n, Ww, Wh int) geom.Polygon {
	ring, _ := verifRingWH("z", n, 6, 7, Ww, Wh, verifCentre)
	return geom.Polygon{ring}
}

func verifC06Plain(poly geom.Polygon) {
	for _, keep := range []bool{false, true} {
		_, panicked := verifSnapCatch(poly, verifSyntheticTMS(2), verifIDs(0), Config{KeepPointsAndLines: keep})
		verifCover("ran")
		verifAssert(!panicked, "C06.O1.no-panic")
	}
}

func VerifC06Zigzag8Row()    { verifC06Plain(verifCentreRing(8, 4, 1)) }
func VerifC06Zigzag7Square() { verifC06Plain(verifCentreRing(7, 2, 2)) }
func VerifC06Zigzag6Square() { verifC06Plain(verifCentreRing(6, 2, 2)) }
func VerifC05Zigzag7Row()    { verifC05One(verifCentreRing(7, 4, 1), false, verifIDs(0)) }
func VerifC05Zigzag6Square() { verifC05One(verifCentreRing(6, 2, 2), false, verifIDs(0)) }
