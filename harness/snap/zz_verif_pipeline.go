package snap

// Shared pipeline harness: a polygon whose vertices have case-split pixel addresses inside a small window and fully
// symbolic sub-pixel positions (lattice of 2^-10 pixel) is snapped on the synthetic dyadic grid; oracles work on
// exact integer lattice coordinates (1 pixel of tile matrix 0 = 1024 units).

import (
	"github.com/go-spatial/geom"
	"github.com/pdok/texel/tms20"
)

const verifSub = 1024

type verifPt = [2]int64

type verifInput struct {
	poly geom.Polygon
	L    [][]verifPt // lattice coordinates per ring
}

// sub-pixel modes
const (
	verifFull   = 0 // every position u,v in [0,1023]
	verifCentre = 1 // pixel centre
	verifHalf   = 2 // u,v in {256, 768}
	verifEdgy   = 3 // u,v in {0, 512}: on the pixel's inclusive borders, corner, or centre
	verifEighth = 4 // u,v multiples of 1/8 pixel
)

func verifOffset(name string, mode int) int64 {
	switch mode {
	case verifCentre:
		return 512
	case verifHalf:
		return 256 + 512*verifNondetInt(name, 0, 1)
	case verifEdgy:
		return 512 * verifNondetInt(name, 0, 1)
	case verifEighth:
		return 128 * verifNondetInt(name, 0, 7)
	}
	return verifNondetInt(name, 0, verifSub-1)
}

// verifVertex: pixel address case-split in the window [wx,wx+W) x [wy,wy+W), sub-pixel position per mode.
func verifVertex(name string, wx, wy, W int, mode int) (fx, fy float64, p verifPt) {
	px := wx + verifConcretizeInt(int(verifNondetInt(name+".px", 0, int64(W-1))))
	py := wy + verifConcretizeInt(int(verifNondetInt(name+".py", 0, int64(W-1))))
	x := int64(px)*verifSub + verifOffset(name+".u", mode)
	y := int64(py)*verifSub + verifOffset(name+".v", mode)
	return verifDyadicOf(x, 10), verifDyadicOf(y, 10), verifPt{x, y}
}

// verifVertexWH: like verifVertex with a window of Ww x Wh pixels.
func verifVertexWH(name string, wx, wy, Ww, Wh int, mode int) (fx, fy float64, p verifPt) {
	px, py := wx, wy
	if Ww > 1 {
		px += verifConcretizeInt(int(verifNondetInt(name+".px", 0, int64(Ww-1))))
	}
	if Wh > 1 {
		py += verifConcretizeInt(int(verifNondetInt(name+".py", 0, int64(Wh-1))))
	}
	x := int64(px)*verifSub + verifOffset(name+".u", mode)
	y := int64(py)*verifSub + verifOffset(name+".v", mode)
	return verifDyadicOf(x, 10), verifDyadicOf(y, 10), verifPt{x, y}
}

func verifRingWH(name string, n, wx, wy, Ww, Wh, mode int) ([][2]float64, []verifPt) {
	ring := make([][2]float64, n)
	L := make([]verifPt, n)
	for i := 0; i < n; i++ {
		fx, fy, p := verifVertexWH(name+verifItoa(i), wx, wy, Ww, Wh, mode)
		ring[i] = [2]float64{fx, fy}
		L[i] = p
	}
	return ring, L
}

func verifRing(name string, n, wx, wy, W, mode int) ([][2]float64, []verifPt) {
	ring := make([][2]float64, n)
	L := make([]verifPt, n)
	for i := 0; i < n; i++ {
		fx, fy, p := verifVertex(name+verifItoa(i), wx, wy, W, mode)
		ring[i] = [2]float64{fx, fy}
		L[i] = p
	}
	return ring, L
}

// ---------------------------------------------------------------- exact predicates on lattice points

func verifOrient(a, b, c verifPt) int64 {
	return (b[0]-a[0])*(c[1]-a[1]) - (b[1]-a[1])*(c[0]-a[0])
}

func verifSgn(v int64) int {
	if v > 0 {
		return 1
	}
	if v < 0 {
		return -1
	}
	return 0
}

func verifBetween(a, b, c int64) bool { // c in [min(a,b), max(a,b)]
	return (a <= c && c <= b) || (b <= c && c <= a)
}

// verifOnSegment: c on closed segment ab (collinearity assumed by caller)
func verifOnSegment(a, b, c verifPt) bool {
	return verifBetween(a[0], b[0], c[0]) && verifBetween(a[1], b[1], c[1])
}

// verifSegsIntersect: closed segments ab and cd share at least one point.
func verifSegsIntersect(a, b, c, d verifPt) bool {
	o1, o2 := verifSgn(verifOrient(a, b, c)), verifSgn(verifOrient(a, b, d))
	o3, o4 := verifSgn(verifOrient(c, d, a)), verifSgn(verifOrient(c, d, b))
	if o1 != o2 && o3 != o4 {
		return true
	}
	return (o1 == 0 && verifOnSegment(a, b, c)) || (o2 == 0 && verifOnSegment(a, b, d)) ||
		(o3 == 0 && verifOnSegment(c, d, a)) || (o4 == 0 && verifOnSegment(c, d, b))
}

// verifProperCross: the interiors of ab and cd cross in a single point (touching and overlap do not count).
func verifProperCross(a, b, c, d verifPt) bool {
	o1, o2 := verifSgn(verifOrient(a, b, c)), verifSgn(verifOrient(a, b, d))
	o3, o4 := verifSgn(verifOrient(c, d, a)), verifSgn(verifOrient(c, d, b))
	return o1*o2 < 0 && o3*o4 < 0
}

// verifRingSimple: no repeated vertex, no zero-length edge, adjacent edges meet only in their shared vertex,
// non-adjacent edges are disjoint.
func verifRingSimple(r []verifPt) bool {
	n := len(r)
	if n < 3 {
		return false
	}
	ok := true
	for i := 0; i < n; i++ {
		for j := i + 1; j < n; j++ {
			if r[i] == r[j] {
				ok = false
			}
		}
	}
	for i := 0; i < n; i++ {
		a, b := r[i], r[(i+1)%n]
		for j := i + 1; j < n; j++ {
			c, d := r[j], r[(j+1)%n]
			switch {
			case j == i+1 || (i == 0 && j == n-1):
				// adjacent: share exactly one vertex; the other endpoints must not lie on the neighbour edge
				if j == i+1 {
					// shared vertex b == c
					if verifOrient(a, b, d) == 0 && (verifOnSegment(a, b, d) || verifOnSegment(c, d, a)) {
						ok = false
					}
				} else {
					// i == 0, j == n-1: shared vertex a == d
					if verifOrient(a, b, c) == 0 && (verifOnSegment(a, b, c) || verifOnSegment(c, d, b)) {
						ok = false
					}
				}
			default:
				if verifSegsIntersect(a, b, c, d) {
					ok = false
				}
			}
		}
	}
	return ok
}

// verifArea2 is twice the signed area.
func verifArea2(r []verifPt) int64 {
	var s int64
	for i := range r {
		j := (i + 1) % len(r)
		s += r[i][0]*r[j][1] - r[j][0]*r[i][1]
	}
	return s
}

// verifPointInRing: even-odd rule; boundary reported separately.
func verifPointInRing(r []verifPt, p verifPt) (inside, onBoundary bool) {
	n := len(r)
	for i := 0; i < n; i++ {
		a, b := r[i], r[(i+1)%n]
		if verifOrient(a, b, p) == 0 && verifOnSegment(a, b, p) {
			onBoundary = true
		}
		// half-open rule on y to count each crossing once
		if (a[1] <= p[1]) != (b[1] <= p[1]) {
			// x coordinate of the edge at height p.y compared with p.x, cross-multiplied
			// edge from low to high
			lo, hi := a, b
			if lo[1] > hi[1] {
				lo, hi = hi, lo
			}
			if verifOrient(lo, hi, p) > 0 {
				inside = !inside
			}
		}
	}
	return inside, onBoundary
}

// ---------------------------------------------------------------- output helpers

// verifLatticeRing converts an output ring (pixel centres of tile matrix id <= 2) to lattice coordinates.
func verifLatticeRing(r [][2]float64) []verifPt {
	out := make([]verifPt, len(r))
	for i, v := range r {
		out[i] = verifPt{int64(v[0] * verifSub), int64(v[1] * verifSub)}
	}
	return out
}

type verifEdge struct{ a, b verifPt }

func verifEdgesOf(polys []geom.Polygon) []verifEdge {
	var es []verifEdge
	for _, p := range polys {
		for _, r := range p {
			lr := verifLatticeRing(r)
			if len(lr) < 2 {
				continue
			}
			for i := range lr {
				j := (i + 1) % len(lr)
				if len(lr) == 2 && i == 1 {
					break
				}
				es = append(es, verifEdge{lr[i], lr[j]})
			}
		}
	}
	return es
}

func verifIDs(sel int) []tms20.TMID {
	return [][]tms20.TMID{{0}, {1}, {0, 1}, {1, 0}, {0, 2}, {1, 2}, {0, 1, 2}}[sel]
}

// verifPixelSize returns the pixel size of tile matrix id in lattice units.
func verifPixelSize(id int) int64 { return verifSub >> uint(id) }

// verifIsCentreOf: c is the centre of the pixel (of tile matrix id) that contains lattice point p.
func verifIsCentreOf(c, p verifPt, id int) bool {
	s := verifPixelSize(id)
	return c[0] == (p[0]/s)*s+s/2 && c[1] == (p[1]/s)*s+s/2
}
