package snap

// Exact oracles used by the harnesses (plain integer Go; executed symbolically like everything else and natively
// in replays). Products go through verifMulCmp, which never overflows.

// verifBound is a bound num/den (den > 0) on the line parameter t; closed says whether t may equal it.
type verifBound struct {
	num, den int64
	closed   bool
}

// verifLowerOK reports whether lower bound l and upper bound u leave room for some t: l < u, or l == u with both closed.
func verifLowerOK(l, u verifBound) bool {
	c := verifMulCmp(l.num, u.den, u.num, l.den)
	return c < 0 || (c == 0 && l.closed && u.closed)
}

// verifMeets: does the closed segment (x1,y1)-(x2,y2) have a point in the half-open box
// [minx,maxx) x [miny,maxy)?  Formulated as pairwise compatibility of the one-dimensional parameter bounds.
func verifMeets(x1, y1, x2, y2, minx, miny, maxx, maxy int64) bool {
	lowers := [3]verifBound{{0, 1, true}, {0, 1, true}, {0, 1, true}}
	uppers := [3]verifBound{{1, 1, true}, {1, 1, true}, {1, 1, true}}
	p := [2]int64{x1, y1}
	d := [2]int64{x2 - x1, y2 - y1}
	lo := [2]int64{minx, miny}
	hi := [2]int64{maxx, maxy}
	ok := true
	for ax := 0; ax < 2; ax++ {
		switch {
		case d[ax] == 0:
			if p[ax] < lo[ax] || p[ax] >= hi[ax] {
				ok = false
			}
		case d[ax] > 0:
			// lo <= p + t d < hi  <=>  (lo-p)/d <= t < (hi-p)/d
			lowers[ax+1] = verifBound{lo[ax] - p[ax], d[ax], true}
			uppers[ax+1] = verifBound{hi[ax] - p[ax], d[ax], false}
		default:
			// d < 0: (p-hi)/(-d) < t <= (p-lo)/(-d)
			lowers[ax+1] = verifBound{p[ax] - hi[ax], -d[ax], false}
			uppers[ax+1] = verifBound{p[ax] - lo[ax], -d[ax], true}
		}
	}
	for i := 0; i < 3; i++ {
		for j := 0; j < 3; j++ {
			if !verifLowerOK(lowers[i], uppers[j]) {
				ok = false
			}
		}
	}
	return ok
}

// verifEntry returns the parameter (as a bound) at which the segment enters the box; only meaningful if it meets it.
func verifEntry(x1, y1, x2, y2, minx, miny, maxx, maxy int64) verifBound {
	best := verifBound{0, 1, true}
	p := [2]int64{x1, y1}
	d := [2]int64{x2 - x1, y2 - y1}
	lo := [2]int64{minx, miny}
	hi := [2]int64{maxx, maxy}
	for ax := 0; ax < 2; ax++ {
		var b verifBound
		switch {
		case d[ax] == 0:
			continue
		case d[ax] > 0:
			b = verifBound{lo[ax] - p[ax], d[ax], true}
		default:
			b = verifBound{p[ax] - hi[ax], -d[ax], false}
		}
		c := verifMulCmp(b.num, best.den, best.num, b.den)
		if c > 0 || (c == 0 && !b.closed) {
			best = b
		}
	}
	return best
}

// verifBefore: does entry a come strictly before entry b along the segment (closed entry before open entry on ties)?
func verifBefore(a, b verifBound) bool {
	c := verifMulCmp(a.num, b.den, b.num, a.den)
	return c < 0 || (c == 0 && a.closed && !b.closed)
}
