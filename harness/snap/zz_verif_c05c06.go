package snap

import (
	"github.com/go-spatial/geom"
	"github.com/pdok/texel/tms20"
)

func init() {
	verifHarnesses["VerifC06Ring3"] = VerifC06Ring3
	verifHarnesses["VerifC06Thin4"] = VerifC06Thin4
	verifHarnesses["VerifC06Thin5"] = VerifC06Thin5
	verifHarnesses["VerifC05Thin4"] = VerifC05Thin4
	verifHarnesses["VerifC05Thin5"] = VerifC05Thin5
	verifHarnesses["VerifC06Ring3Edgy"] = VerifC06Ring3Edgy
	verifHarnesses["VerifC06Ring4Centre"] = VerifC06Ring4Centre
	verifHarnesses["VerifC06Ring3Full"] = VerifC06Ring3Full
	verifHarnesses["VerifC05Ring3Edgy"] = VerifC05Ring3Edgy
	verifHarnesses["VerifC05Ring4Centre"] = VerifC05Ring4Centre
	verifHarnesses["VerifC05Ring3Full"] = VerifC05Ring3Full
	verifHarnesses["VerifC06Ring4Edgy"] = VerifC06Ring4Edgy
	verifHarnesses["VerifC06Ring5Centre"] = VerifC06Ring5Centre
	verifHarnesses["VerifC06Tiny"] = VerifC06Tiny
	verifHarnesses["VerifC06Hole"] = VerifC06Hole
	verifHarnesses["VerifC05Ring3"] = VerifC05Ring3
	verifHarnesses["VerifC05Ring4Edgy"] = VerifC05Ring4Edgy
	verifHarnesses["VerifC05Ring5Centre"] = VerifC05Ring5Centre
	verifHarnesses["VerifC05Hole"] = VerifC05Hole
}

// verifAnyPolygon: rings with arbitrary vertex sequences (no validity assumed).
func verifAnyPolygon(sizes []int, wx, wy, W, mode int) (geom.Polygon, [][]verifPt) {
	var poly geom.Polygon
	var L [][]verifPt
	for ri, n := range sizes {
		ring, l := verifRing("r"+verifItoa(ri)+"v", n, wx, wy, W, mode)
		poly = append(poly, ring)
		L = append(L, l)
	}
	return poly, L
}

// verifThinRing: any ring of n vertices in a window of 2x1 pixels with sub-pixel positions {1/4,3/4} (the centres of
// the finer tile matrix's pixels): thin shapes, vertices sharing a coarse pixel but not a fine one.
func verifThinRing(n int) geom.Polygon {
	ring, _ := verifRingWH("t", n, 7, 7, 2, 1, verifHalf)
	return geom.Polygon{ring}
}

func VerifC06Thin4() {
	poly := verifThinRing(4)
	for _, cfg := range verifCfgs() {
		_, panicked := verifSnapCatch(poly, verifSyntheticTMS(2), verifIDs(2), cfg)
		verifCover("ran")
		verifAssert(!panicked, "C06.O1.no-panic")
	}
}

func VerifC06Thin5() {
	poly := verifThinRing(5)
	_, panicked := verifSnapCatch(poly, verifSyntheticTMS(2), verifIDs(2), Config{})
	verifCover("ran")
	verifAssert(!panicked, "C06.O1.no-panic")
}

func VerifC05Thin4() {
	poly := verifThinRing(4)
	for _, reverse := range []bool{false, true} {
		verifC05One(poly, reverse, verifIDs(2))
	}
}

func VerifC05Thin5() { verifC05One(verifThinRing(5), false, verifIDs(2)) }

// ---------------------------------------------------------------- C06: total

func verifC06Body(sizes []int, wx, wy, W, mode, idsel int) {
	poly, _ := verifAnyPolygon(sizes, wx, wy, W, mode)
	for _, cfg := range verifCfgs() {
		_, panicked := verifSnapCatch(poly, verifSyntheticTMS(2), verifIDs(idsel), cfg)
		verifCover("ran")
		verifAssert(!panicked, "C06.O1.no-panic")
	}
}

func VerifC06Ring3()       { verifC06Body([]int{3}, 7, 7, 2, verifEighth, 0) }
func VerifC06Ring3Edgy()   { verifC06Body([]int{3}, 7, 7, 2, verifEdgy, 2) }
func VerifC06Ring4Centre() { verifC06Body([]int{4}, 7, 7, 2, verifCentre, 2) }
func VerifC06Ring4Edgy()   { verifC06Body([]int{4}, 7, 7, 2, verifEdgy, 0) }
func VerifC06Ring5Centre() { verifC06Body([]int{5}, 6, 6, 3, verifCentre, 2) }
func VerifC06Hole()        { verifC06Body([]int{3, 3}, 7, 7, 2, verifEdgy, 0) }
func VerifC06Ring3Full()   { verifC06Body([]int{3}, 7, 7, 2, verifFull, 2) }

// rings of one and two points, and an empty hole list
func VerifC06Tiny() {
	n := verifConcretizeInt(int(verifNondetInt("n", 1, 2)))
	verifC06Body([]int{n}, 7, 7, 2, verifFull, 2)
}

// ---------------------------------------------------------------- C05: structure of the result

func verifRingHasDup(r []verifPt) bool {
	for i := range r {
		for j := i + 1; j < len(r); j++ {
			if r[i] == r[j] {
				return true
			}
		}
	}
	return false
}

// verifC05Check asserts the structural invariants of one result.
func verifC05Check(res map[tms20.TMID][]geom.Polygon, ids []tms20.TMID, cfg Config) {
	requested := map[int]bool{}
	for _, id := range ids {
		requested[id] = true
	}
	for id, polys := range res {
		verifAssert(requested[id], "C05.O0.only-requested-ids")
		verifAssert(len(polys) > 0, "C05.O5.no-empty-list")
		for _, p := range polys {
			verifAssert(len(p) > 0, "C05.O1.polygon-has-shell")
			for ri, r := range p {
				lr := verifLatticeRing(r)
				if !cfg.KeepPointsAndLines {
					verifAssert(len(lr) >= 3, "C05.O4.at-least-three-vertices")
				} else {
					verifAssert(len(lr) >= 1, "C05.O4.non-empty-ring")
				}
				verifAssert(!verifRingHasDup(lr), "C05.O3.no-vertex-twice")
				a2 := verifArea2(lr)
				if a2 != 0 && len(lr) >= 3 {
					wantCCW := ri == 0
					if cfg.ReverseWindingOrder {
						wantCCW = !wantCCW
					}
					verifAssert((a2 > 0) == wantCCW, "C05.O2.orientation")
				}
			}
		}
	}
}

func verifSamePolys(a, b []geom.Polygon) bool {
	if len(a) != len(b) {
		return false
	}
	for i := range a {
		if len(a[i]) != len(b[i]) {
			return false
		}
		for j := range a[i] {
			if len(a[i][j]) != len(b[i][j]) {
				return false
			}
			for k := range a[i][j] {
				if a[i][j][k] != b[i][j][k] {
					return false
				}
			}
		}
	}
	return true
}

func verifC05Body(sizes []int, wx, wy, W, mode, idsel int) {
	poly, _ := verifAnyPolygon(sizes, wx, wy, W, mode)
	for _, reverse := range []bool{false, true} {
		verifC05One(poly, reverse, verifIDs(idsel))
	}
}

func verifC05One(poly geom.Polygon, reverse bool, ids []tms20.TMID) {
	tms := verifSyntheticTMS(2)
	drop, p1 := verifSnapCatch(poly, tms, ids, Config{ReverseWindingOrder: reverse})
	keep, p2 := verifSnapCatch(poly, tms, ids, Config{ReverseWindingOrder: reverse, KeepPointsAndLines: true})
	if p1 || p2 {
		verifCover("panicked") // C06's business
		return
	}
	verifCover("checked")
	verifC05Check(drop, ids, Config{ReverseWindingOrder: reverse})
	verifC05Check(keep, ids, Config{ReverseWindingOrder: reverse, KeepPointsAndLines: true})
	// keep = drop + collapsed parts as separate one- or two-vertex rings
	for id, dp := range drop {
		kp, present := keep[id]
		verifAssert(present && len(kp) >= len(dp), "C05.O6.keep-extends-drop")
		if !present || len(kp) < len(dp) {
			continue
		}
		verifAssert(verifSamePolys(kp[:len(dp)], dp), "C05.O6.keep-has-same-polygons-first")
		for _, extra := range kp[len(dp):] {
			verifAssert(len(extra) == 1 && len(extra[0]) >= 1 && len(extra[0]) <= 2, "C05.O6.extras-are-points-or-lines")
		}
	}
	for id := range keep {
		if _, present := drop[id]; !present {
			// a tile matrix at which the shell collapses: the property only speaks about tile matrices that are
			// present without the option, so nothing is asserted here
			verifCover("collapsed-level")
		}
	}
}

func VerifC05Ring3()       { verifC05Body([]int{3}, 7, 7, 2, verifEighth, 0) }
func VerifC05Ring3Edgy()   { verifC05Body([]int{3}, 7, 7, 2, verifEdgy, 2) }
func VerifC05Ring4Centre() { verifC05Body([]int{4}, 7, 7, 2, verifCentre, 2) }
func VerifC05Ring3Full()   { verifC05Body([]int{3}, 7, 7, 2, verifFull, 2) }
func VerifC05Ring4Edgy()   { verifC05Body([]int{4}, 7, 7, 2, verifEdgy, 0) }
func VerifC05Ring5Centre() { verifC05Body([]int{5}, 6, 6, 3, verifCentre, 2) }
func VerifC05Hole()        { verifC05Body([]int{3, 3}, 7, 7, 2, verifEdgy, 0) }
