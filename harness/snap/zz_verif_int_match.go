package snap

// Unit-level obligations (internal tier) for hole matching, reached with more rings than the pipeline harnesses
// afford: shells and holes are drawn from small catalogues (nested, overlapping with equal area, touching, disjoint),
// in every order and with every start vertex of the hole.

func init() {
	verifHarnesses["VerifMatchInners"] = VerifMatchInners
}

func verifRectCCW(x0, y0, x1, y1 float64) [][2]float64 {
	return [][2]float64{{x0, y0}, {x1, y0}, {x1, y1}, {x0, y1}}
}

func verifToLattice(r [][2]float64) []verifPt {
	out := make([]verifPt, len(r))
	for i, v := range r {
		out[i] = verifPt{int64(v[0] * 4), int64(v[1] * 4)}
	}
	return out
}

func verifAllInOrOn(shell []verifPt, hole []verifPt) bool {
	for _, v := range hole {
		in, on := verifPointInRing(shell, v)
		if !in && !on {
			return false
		}
	}
	return true
}

func verifAbs(v int64) int64 {
	if v < 0 {
		return -v
	}
	return v
}

func VerifMatchInners() {
	shells := [][][2]float64{
		verifRectCCW(0, 0, 8, 8),   // big
		verifRectCCW(1, 1, 5, 5),   // nested in big
		verifRectCCW(4, 0, 12, 8),  // overlaps big, equal area
		verifRectCCW(8, 0, 12, 4),  // touches big along x = 8
		verifRectCCW(8, 8, 11, 11), // touches big in the corner (8,8)
		{{0, 0}, {8, 0}, {0, 8}},   // triangle, half of big
		verifRectCCW(2, 2, 3.5, 3.5), // small, nested in the nested one
	}
	holes := [][][2]float64{
		{{2.5, 2.5}, {2.5, 3}, {3, 2.5}},   // inside big, nested, small, triangle
		{{5, 1}, {5, 3}, {7, 1}},           // inside big and the overlapping one
		{{8, 1}, {6, 2}, {6, 1}},           // first vertex on the shared edge x = 8
		{{8, 8}, {6, 7}, {7, 6}},           // first vertex in the shared corner
		{{1, 1}, {1, 2}, {2, 1}},           // first vertex on the corner of the nested shell
		{{9, 1}, {9, 2}, {10, 1}},          // inside the touching one (and the overlapping one)
		{{4, 4}, {4.5, 6}, {6, 4.5}, {5, 4}}, // quadrilateral inside big, partly inside nested and overlapping
	}
	ns := 1 + verifConcretizeInt(int(verifNondetInt("nshells", 1, 2)))
	var polys [][][][2]float64
	var lshells [][]verifPt
	used := map[int]bool{}
	for i := 0; i < ns; i++ {
		k := verifConcretizeInt(int(verifNondetInt("shell"+verifItoa(i), 0, int64(len(shells)-1))))
		verifAssume(!used[k])
		used[k] = true
		polys = append(polys, [][][2]float64{shells[k]})
		lshells = append(lshells, verifToLattice(shells[k]))
	}
	hk := verifConcretizeInt(int(verifNondetInt("hole", 0, int64(len(holes)-1))))
	rot := verifConcretizeInt(int(verifNondetInt("rot", 0, 3)))
	h := holes[hk]
	verifAssume(rot < len(h))
	// holes are clockwise in the pipeline: reverse, then rotate the start vertex
	hole := make([][2]float64, len(h))
	for i := range h {
		hole[i] = h[(len(h)-1-i+rot)%len(h)]
	}
	lhole := verifToLattice(hole)
	anyContains := false
	for _, ls := range lshells {
		if verifAllInOrOn(ls, lhole) {
			anyContains = true
		}
	}
	verifAssume(anyContains)
	clone := func() [][][][2]float64 {
		c := make([][][][2]float64, len(polys))
		for i := range polys {
			c[i] = [][][2]float64{polys[i][0]}
		}
		return c
	}
	verifMapOrder(0)
	r1 := matchInnersToPolygons(clone(), [][][2]float64{hole}, true)
	verifMapOrder(1)
	r2 := matchInnersToPolygons(clone(), [][][2]float64{hole}, true)
	verifMapOrder(0)
	verifCover("matched")
	// determinism under map iteration order (C07)
	same := len(r1) == len(r2)
	for i := 0; same && i < len(r1); i++ {
		same = len(r1[i]) == len(r2[i])
	}
	verifAssert(same, "C07.O1.hole-matching-independent-of-map-order")
	// the remaining assertions are about configurations a valid polygon can produce: shells pairwise nested or with
	// disjoint interiors (touching allowed), and the hole touches a shell that does not contain it in at most one vertex
	realistic := true
	for i := range lshells {
		for j := range lshells {
			if i == j {
				continue
			}
			nested := verifAllInOrOn(lshells[j], lshells[i])
			apart := true
			for _, v := range lshells[i] {
				in, on := verifPointInRing(lshells[j], v)
				if in && !on {
					apart = false
				}
			}
			for a := range lshells[i] {
				// edge midpoints (lattice units are quarters, so they are integral) must not be strictly inside either
				p0, p1 := lshells[i][a], lshells[i][(a+1)%len(lshells[i])]
				mid := verifPt{(p0[0] + p1[0]) / 2, (p0[1] + p1[1]) / 2}
				if in, on := verifPointInRing(lshells[j], mid); in && !on {
					apart = false
				}
			}
			for a := range lshells[i] {
				for b := range lshells[j] {
					if verifProperCross(lshells[i][a], lshells[i][(a+1)%len(lshells[i])], lshells[j][b], lshells[j][(b+1)%len(lshells[j])]) {
						apart = false
					}
				}
			}
			if !nested && !apart {
				realistic = false
			}
		}
		if !verifAllInOrOn(lshells[i], lhole) {
			touching := 0
			for _, v := range lhole {
				in, on := verifPointInRing(lshells[i], v)
				if on {
					touching++
				} else if in {
					realistic = false
				}
			}
			if touching > 1 {
				realistic = false
			}
		}
	}
	if !realistic {
		verifCover("unrealistic-configuration")
		return
	}
	verifCover("realistic-configuration")
	// the hole is attached to exactly one shell, one that contains all of it, the smallest such (C18 O-2, C04)
	verifAssert(len(r1) == ns, "C18.O2.no-ring-invented-or-lost")
	attached := -1
	count := 0
	for i := range r1 {
		if len(r1[i]) == 2 {
			attached = i
			count++
		}
	}
	verifAssert(count == 1, "C18.O2.hole-attached-exactly-once")
	if count == 1 {
		verifAssert(verifAllInOrOn(lshells[attached], lhole), "C18.O2.hole-inside-or-on-its-shell")
		a := verifAbs(verifArea2(lshells[attached]))
		for i, ls := range lshells {
			if i != attached && verifAllInOrOn(ls, lhole) {
				verifAssert(a <= verifAbs(verifArea2(ls)), "C18.O2.smallest-containing-shell")
			}
		}
	}
}
