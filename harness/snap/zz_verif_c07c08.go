package snap

import (
	"github.com/go-spatial/geom"
	"github.com/pdok/texel/pointindex"
	"github.com/pdok/texel/tms20"
)

func init() {
	verifHarnesses["VerifC07MapOrder"] = VerifC07MapOrder
	verifHarnesses["VerifC07MapOrderEdgy4"] = VerifC07MapOrderEdgy4
	verifHarnesses["VerifC07MapOrder4"] = VerifC07MapOrder4
	verifHarnesses["VerifC07MapOrderEdgy"] = VerifC07MapOrderEdgy
	verifHarnesses["VerifC07RingDirection"] = VerifC07RingDirection
	verifHarnesses["VerifC07RingDirectionHole"] = VerifC07RingDirectionHole
	verifHarnesses["VerifC07ReverseFlag"] = VerifC07ReverseFlag
	verifHarnesses["VerifC07ReverseFlagEdgy"] = VerifC07ReverseFlagEdgy
	verifHarnesses["VerifC07RingDirectionHalf"] = VerifC07RingDirectionHalf
	verifHarnesses["VerifC08Levels"] = VerifC08Levels
	verifHarnesses["VerifC08Levels2x2"] = VerifC08Levels2x2
	verifHarnesses["VerifC08Thin4"] = VerifC08Thin4
	verifHarnesses["VerifC08Thin4Fine"] = VerifC08Thin4Fine
	verifHarnesses["VerifC07MapOrderThin5"] = VerifC07MapOrderThin5
	verifHarnesses["VerifC08LevelsAll"] = VerifC08LevelsAll
	verifHarnesses["VerifC08LevelsEdgy4"] = VerifC08LevelsEdgy4
	verifHarnesses["VerifC08LevelsEighth"] = VerifC08LevelsEighth
	verifHarnesses["VerifC03Levels"] = VerifC03Levels
	verifHarnesses["VerifC09Snap"] = VerifC09Snap
}

func verifSameResult(a, b map[tms20.TMID][]geom.Polygon) bool {
	if len(a) != len(b) {
		return false
	}
	for id, pa := range a {
		pb, ok := b[id]
		if !ok || !verifSamePolys(pa, pb) {
			return false
		}
	}
	return true
}

// ---------------------------------------------------------------- C07

// O-1: same polygon, same settings; the second execution iterates every map in a nondeterministically chosen order.
func verifC07MapOrderBody(sizes []int, wx, wy, W, mode, idsel int) {
	poly, _ := verifAnyPolygon(sizes, wx, wy, W, mode)
	ids := verifIDs(idsel)
	tms := verifSyntheticTMS(2)
	for _, cfg := range []Config{{}, {KeepPointsAndLines: true, ReverseWindingOrder: true}} {
		verifMapOrder(0)
		r1, p1 := verifSnapCatch(poly, tms, ids, cfg)
		verifMapOrder(1)
		r2, p2 := verifSnapCatch(poly, tms, ids, cfg)
		verifMapOrder(0)
		verifCover("twice")
		verifAssert(p1 == p2, "C07.O1.same-panic-behaviour")
		if !p1 && !p2 {
			verifAssert(verifSameResult(r1, r2), "C07.O1.identical-under-any-map-order")
		}
	}
}

func VerifC07MapOrder()      { verifC07MapOrderBody([]int{3}, 7, 7, 2, verifCentre, 2) }
func VerifC07MapOrderEdgy()  { verifC07MapOrderBody([]int{3}, 7, 7, 2, verifEdgy, 2) }
// any 4-vertex ring on pixel centres, default flags only (rings whose routed walk is longer than twice their length)
func VerifC07MapOrder4() {
	poly, _ := verifAnyPolygon([]int{4}, 7, 7, 2, verifCentre)
	ids := verifIDs(2)
	tms := verifSyntheticTMS(2)
	verifMapOrder(0)
	r1, p1 := verifSnapCatch(poly, tms, ids, Config{})
	verifMapOrder(1)
	r2, p2 := verifSnapCatch(poly, tms, ids, Config{})
	verifMapOrder(0)
	verifCover("twice")
	verifAssert(p1 == p2, "C07.O1.same-panic-behaviour")
	if !p1 && !p2 {
		verifAssert(verifSameResult(r1, r2), "C07.O1.identical-under-any-map-order")
	}
}

func VerifC07MapOrderEdgy4() { verifC07MapOrderBody([]int{4}, 7, 7, 2, verifCentre, 2) }

// O-2: a valid polygon written with any subset of its rings reversed gives identical geometry.
func VerifC07RingDirection()     { verifC07RingDirectionBody(3, verifFull, 0) }
func VerifC07RingDirectionHalf() { verifC07RingDirectionBody(3+verifConcretizeInt(int(verifNondetInt("extra", 0, 1))), verifHalf, 2) }

func verifC07RingDirectionBody(n, mode, idsel int) {
	ring, L := verifValidRing(n, 7, 7, 2, mode)
	_ = L
	ids := verifIDs(idsel)
	tms := verifSyntheticTMS(2)
	rev := make([][2]float64, len(ring))
	for i := range ring {
		rev[len(ring)-1-i] = ring[i]
	}
	for _, cfg := range verifCfgs() {
		r1, p1 := verifSnapCatch(geom.Polygon{ring}, tms, ids, cfg)
		r2, p2 := verifSnapCatch(geom.Polygon{rev}, tms, ids, cfg)
		verifCover("both-directions")
		verifAssert(!p1 && !p2, "C07.O2.no-panic")
		if !p1 && !p2 {
			verifAssert(verifSameResult(r1, r2), "C07.O2.ring-direction-irrelevant")
		}
	}
}

// with a hole: shell = axis-parallel square on pixel borders around the window, hole = valid triangle inside it
func VerifC07RingDirectionHole() {
	hole, L := verifValidRing(3, 7, 7, 2, verifHalf)
	_ = L
	shell := [][2]float64{{6, 6}, {10, 6}, {10, 10}, {6, 10}}
	cfg := verifCfg()
	ids := verifIDs(0)
	tms := verifSyntheticTMS(2)
	rs, rh := shell, hole
	if verifConcretizeBool(verifNondetBool("revshell")) {
		rs = [][2]float64{shell[3], shell[2], shell[1], shell[0]}
	}
	if verifConcretizeBool(verifNondetBool("revhole")) {
		rh = [][2]float64{hole[2], hole[1], hole[0]}
	}
	r1, p1 := verifSnapCatch(geom.Polygon{shell, hole}, tms, ids, cfg)
	r2, p2 := verifSnapCatch(geom.Polygon{rs, rh}, tms, ids, cfg)
	verifCover("both-directions")
	verifAssert(!p1 && !p2, "C07.O2.no-panic")
	if !p1 && !p2 {
		verifAssert(verifSameResult(r1, r2), "C07.O2.ring-direction-irrelevant")
	}
}

// O-3: the reverse-winding flag changes nothing but the direction of every returned ring (rings of 1-2 vertices
// carry no winding: same vertex set required).
func VerifC07ReverseFlag()     { verifC07ReverseFlagBody(4, verifCentre) }
func VerifC07ReverseFlagEdgy() { verifC07ReverseFlagBody(3+verifConcretizeInt(int(verifNondetInt("extra", 0, 1))), verifEdgy) }

func verifC07ReverseFlagBody(n, mode int) {
	poly, _ := verifAnyPolygon([]int{n}, 7, 7, 2, mode)
	keep := verifConcretizeBool(verifNondetBool("keep"))
	ids := verifIDs(2)
	tms := verifSyntheticTMS(2)
	r1, p1 := verifSnapCatch(poly, tms, ids, Config{KeepPointsAndLines: keep})
	r2, p2 := verifSnapCatch(poly, tms, ids, Config{KeepPointsAndLines: keep, ReverseWindingOrder: true})
	verifCover("both-flags")
	verifAssert(p1 == p2, "C07.O3.same-panic-behaviour")
	if p1 || p2 {
		return
	}
	verifAssert(len(r1) == len(r2), "C07.O3.same-ids")
	for id, pa := range r1 {
		pb, ok := r2[id]
		verifAssert(ok && len(pa) == len(pb), "C07.O3.same-polygon-count")
		if !ok || len(pa) != len(pb) {
			continue
		}
		for i := range pa {
			verifAssert(len(pa[i]) == len(pb[i]), "C07.O3.same-ring-count")
			if len(pa[i]) != len(pb[i]) {
				continue
			}
			for j := range pa[i] {
				a, b := pa[i][j], pb[i][j]
				same := len(a) == len(b)
				if same && len(a) >= 3 {
					for k := range a {
						if a[k] != b[len(b)-1-k] {
							same = false
						}
					}
				} else if same {
					for k := range a {
						found := false
						for m := range b {
							if a[k] == b[m] {
								found = true
							}
						}
						if !found {
							same = false
						}
					}
				}
				verifAssert(same, "C07.O3.rings-exactly-reversed")
			}
		}
	}
}

// ---------------------------------------------------------------- C08

// O-1/O-2: keys are requested ids only; the geometry of a tile matrix is the same alone or with others.
func verifC08Body(sizes []int, wx, wy, W, mode int, all bool) {
	poly, _ := verifAnyPolygon(sizes, wx, wy, W, mode)
	cfgs := []Config{{}}
	pairs := [][]tms20.TMID{{0, 1}, {0, 2}, {1, 2}}
	if all {
		cfgs = verifCfgs()
		pairs = append(pairs, []tms20.TMID{1, 0})
	}
	for _, cfg := range cfgs {
		for _, pair := range pairs {
			verifC08One(poly, cfg, pair)
		}
	}
}

func verifC08One(poly geom.Polygon, cfg Config, pair []tms20.TMID) {
	tms := verifSyntheticTMS(2)
	both, pb := verifSnapCatch(poly, tms, pair, cfg)
	verifCover("compared")
	for _, id := range pair {
		alone, pa := verifSnapCatch(poly, tms, []tms20.TMID{id}, cfg)
		verifAssert(pa == pb, "C08.O2.same-panic-behaviour")
		if pa || pb {
			continue
		}
		for k := range alone {
			verifAssert(k == id, "C08.O1.keys-are-requested-ids")
		}
		ga, oka := alone[id]
		gb, okb := both[id]
		verifAssert(oka == okb, "C08.O2.present-alone-iff-present-together")
		if oka && okb {
			verifAssert(verifSamePolys(ga, gb), "C08.O2.same-geometry-alone-and-together")
		}
	}
	if !pb {
		for k := range both {
			verifAssert(k == pair[0] || k == pair[1], "C08.O1.keys-are-requested-ids")
		}
	}
}

func VerifC08Thin4() {
	verifC08One(verifThinRing(4), Config{}, []tms20.TMID{0, 1})
	verifCover("compared")
}

func VerifC08Thin4Fine() {
	verifC08One(verifThinRing(4), Config{}, []tms20.TMID{1, 2})
	verifCover("compared")
}

func VerifC07MapOrderThin5() {
	poly := verifThinRing(5)
	ids := verifIDs(2)
	tms := verifSyntheticTMS(2)
	verifMapOrder(0)
	r1, p1 := verifSnapCatch(poly, tms, ids, Config{})
	verifMapOrder(1)
	r2, p2 := verifSnapCatch(poly, tms, ids, Config{})
	verifMapOrder(0)
	verifCover("twice")
	verifAssert(p1 == p2, "C07.O1.same-panic-behaviour")
	if !p1 && !p2 {
		verifAssert(verifSameResult(r1, r2), "C07.O1.identical-under-any-map-order")
	}
}

// quick: any 3-vertex ring on pixel borders/corners/centres of a 2x1-pixel window
func VerifC08Levels() {
	ring, _ := verifRingWH("r0v", 3, 7, 7, 2, 1, verifEdgy)
	for _, pair := range [][]tms20.TMID{{0, 1}, {0, 2}, {1, 2}} {
		verifC08One(geom.Polygon{ring}, Config{}, pair)
	}
	verifCover("compared")
}

func VerifC08Levels2x2()   { verifC08Body([]int{3}, 7, 7, 2, verifEdgy, false) }
func VerifC08LevelsAll()   { verifC08Body([]int{3}, 7, 7, 2, verifEdgy, true) }
func VerifC08LevelsEdgy4() { verifC08Body([]int{4}, 7, 7, 2, verifCentre, true) }
func VerifC08LevelsEighth() { verifC08Body([]int{3}, 7, 7, 2, verifEighth, false) }

// ---------------------------------------------------------------- C03 O-2: coordinates of tile matrix z are centres of level z+4

func VerifC03Levels() {
	poly, _ := verifAnyPolygon([]int{3}, 7, 7, 2, verifEdgy)
	for _, cfg := range []Config{{}, {KeepPointsAndLines: true, ReverseWindingOrder: true}} {
		for _, idsel := range []int{1, 2, 4, 6} { // {1}, {0,1}, {0,2}, {0,1,2}
			verifC03One(poly, cfg, verifIDs(idsel))
		}
	}
}

func verifC03One(poly geom.Polygon, cfg Config, ids []tms20.TMID) {
	res, panicked := verifSnapCatch(poly, verifSyntheticTMS(2), ids, cfg)
	if panicked {
		return
	}
	verifCover("checked")
	for id, polys := range res {
		s := verifPixelSize(id)
		for _, p := range polys {
			for _, r := range p {
				for _, v := range r {
					// exact: the float is k*2^-(id+1) units, so v*1024 is an integer
					x, y := int64(v[0]*verifSub), int64(v[1]*verifSub)
					verifAssert(verifDyadicOf(x, 10) == v[0] && verifDyadicOf(y, 10) == v[1], "C03.O3.coordinate-is-exactly-on-the-lattice")
					verifAssert(x%s == s/2 && y%s == s/2, "C03.O2.coordinate-is-a-pixel-centre-of-its-tile-matrix")
				}
			}
		}
	}
}

// ---------------------------------------------------------------- C09 O-4: SnapPolygon and vertices outside the grid

func VerifC09Snap() {
	// triangle near the bottom-left corner of the grid; each vertex may lie up to one pixel outside
	side := verifConcretizeInt(int(verifNondetInt("corner", 0, 1)))
	wx, wy := -1, -1
	if side == 1 {
		wx, wy = 14, 14 // top-right corner: pixels 14..16, 16 is outside
	}
	ring, L := verifRing("v", 3, wx, wy, 3, verifEdgy)
	ignore := verifConcretizeBool(verifNondetBool("ignore"))
	cfg := Config{IgnoreOutsideGrid: ignore}
	outside := false
	for _, p := range L {
		if p[0] < 0 || p[1] < 0 || p[0] >= 16*verifSub || p[1] >= 16*verifSub {
			outside = true
		}
	}
	var res map[tms20.TMID][]geom.Polygon
	var rec interface{}
	func() {
		defer func() { rec = recover() }()
		res = SnapPolygon(geom.Polygon{ring}, verifSyntheticTMS(1), []tms20.TMID{0, 1}, cfg)
	}()
	if outside {
		verifCover("outside")
		if ignore {
			verifAssert(rec == nil && res != nil && len(res) == 0, "C09.O4.outside-ignored-gives-empty-result")
		} else {
			_, isOG := rec.(pointindex.OutsideGridError)
			verifAssert(rec != nil && isOG, "C09.O4.outside-panics-with-outside-grid-error")
		}
	} else {
		verifCover("inside")
		_, isOG := rec.(pointindex.OutsideGridError)
		verifAssert(!isOG, "C09.O4.inside-is-not-rejected")
	}
}
