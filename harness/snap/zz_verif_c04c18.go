package snap

import (
	"github.com/go-spatial/geom"
	"github.com/pdok/texel/tms20"
)

func init() {
	verifHarnesses["VerifC02PolyTri2x2"] = VerifC02PolyTri2x2
	verifHarnesses["VerifC02PolyTri2x2L2"] = VerifC02PolyTri2x2L2
	verifHarnesses["VerifC18Tri2x2L2"] = VerifC18Tri2x2L2
	verifHarnesses["VerifC02PolyQuad2x2Half"] = VerifC02PolyQuad2x2Half
	verifHarnesses["VerifC18Tri2x2"] = VerifC18Tri2x2
	verifHarnesses["VerifC18Quad2x2Half"] = VerifC18Quad2x2Half
	verifHarnesses["VerifC18Pent3x3Centre"] = VerifC18Pent3x3Centre
	verifHarnesses["VerifC04Tri2x2"] = VerifC04Tri2x2
	verifHarnesses["VerifC04Quad2x2Half"] = VerifC04Quad2x2Half
	verifHarnesses["VerifC04ShellWithHole"] = VerifC04ShellWithHole
}

// verifValidRing: a simple ring given counter-clockwise or clockwise (both occur).
func verifValidRing(n, wx, wy, W, mode int) ([][2]float64, []verifPt) {
	ring, L := verifRing("v", n, wx, wy, W, mode)
	verifAssume(verifRingSimple(L))
	return ring, L
}

func verifCCW(L []verifPt) []verifPt {
	if verifConcretizeBool(verifArea2(L) < 0) {
		return verifReversed(L)
	}
	return L
}

// ---------------------------------------------------------------- C02 O-5: non-collapsing polygons are the routed boundary

func verifC02PolyBody(n, wx, wy, W, mode, idsel int) {
	ring, L := verifValidRing(n, wx, wy, W, mode)
	ids := verifIDs(idsel)
	res, panicked := verifSnapCatch(geom.Polygon{ring}, verifSyntheticTMS(2), ids, Config{})
	verifAssert(!panicked, "C02.O5.no-panic")
	if panicked {
		return
	}
	ccw := verifCCW(L)
	for _, id := range ids {
		hot := verifHotPixels([][]verifPt{L}, id)
		rr := verifRoutedRing(ccw, hot, id)
		if verifMaxMultiplicity(rr) > 1 || len(rr) < 3 {
			verifCover("collapsing")
			continue
		}
		verifCover("non-collapsing")
		polys := res[id]
		verifAssert(len(polys) == 1 && len(polys[0]) == 1, "C02.O5.one-polygon-one-ring")
		if len(polys) != 1 || len(polys[0]) != 1 {
			continue
		}
		got := verifLatticeRing(polys[0][0])
		verifAssert(verifCyclicEqual(got, rr), "C02.O5.ring-is-routed-boundary-ccw")
	}
}

func VerifC02PolyTri2x2()      { verifC02PolyBody(3, 7, 7, 2, verifFull, 0) }
func VerifC02PolyTri2x2L2()    { verifC02PolyBody(3, 7, 7, 2, verifFull, 2) }
func VerifC02PolyQuad2x2Half() { verifC02PolyBody(4, 7, 7, 2, verifHalf, 2) }

// ---------------------------------------------------------------- C18: collapse without inventing geometry

// verifIsRoutedEdgeOrRun: a->b is an edge of the routed ring (either direction) or a straight run of consecutive
// routed edges.
func verifIsRoutedEdgeOrRun(a, b verifPt, rr []verifPt) bool {
	n := len(rr)
	for dir := 0; dir < 2; dir++ {
		seq := rr
		if dir == 1 {
			seq = verifReversed(rr)
		}
		for s := 0; s < n; s++ {
			if seq[s] != a {
				continue
			}
			// walk forward while collinear with a->b and moving away from a towards b
			for k := 1; k <= n; k++ {
				c := seq[(s+k)%n]
				prev := seq[(s+k-1)%n]
				if verifOrient(a, b, c) != 0 || !verifOnSegment(a, b, c) || !verifOnSegment(prev, b, c) {
					break
				}
				if c == b {
					return true
				}
			}
		}
	}
	return false
}

func verifC18Body(n, wx, wy, W, mode, idsel int) {
	ring, L := verifValidRing(n, wx, wy, W, mode)
	ids := verifIDs(idsel)
	for _, reverse := range []bool{false, true} {
		verifC18One(ring, L, ids, Config{ReverseWindingOrder: reverse})
	}
}

func verifC18One(ring [][2]float64, L []verifPt, ids []tms20.TMID, cfg Config) {
	res, panicked := verifSnapCatch(geom.Polygon{ring}, verifSyntheticTMS(2), ids, cfg)
	verifAssert(!panicked, "C18.O0.no-panic")
	if panicked {
		return
	}
	ccw := verifCCW(L)
	for _, id := range ids {
		hot := verifHotPixels([][]verifPt{L}, id)
		rr := verifRoutedRing(ccw, hot, id)
		m := verifMaxMultiplicity(rr)
		if m > 2 {
			verifCover("multiplicity-3-or-more") // outside the premise of C18
			continue
		}
		if m == 2 {
			verifCover("collapsing")
		}
		verifCover("premise-holds")
		var sum int64
		for _, p := range res[id] {
			var shell []verifPt
			for ri, r := range p {
				lr := verifLatticeRing(r)
				for i := range lr {
					a, b := lr[i], lr[(i+1)%len(lr)]
					verifAssert(verifIsRoutedEdgeOrRun(a, b, rr), "C18.O1.every-edge-is-routed")
				}
				a2 := verifArea2(lr)
				if cfg.ReverseWindingOrder {
					a2 = -a2
				}
				sum += a2
				if ri == 0 {
					shell = lr
				} else {
					for _, v := range lr {
						in, on := verifPointInRing(shell, v)
						verifAssert(in || on, "C18.O2.hole-inside-or-on-shell")
					}
				}
			}
		}
		verifAssert(sum == verifArea2(rr), "C18.O3.signed-area-preserved")
	}
}

func VerifC18Tri2x2()        { verifC18Body(3, 7, 7, 2, verifFull, 0) }
func VerifC18Tri2x2L2()      { verifC18Body(3, 7, 7, 2, verifFull, 2) }
func VerifC18Quad2x2Half()   { verifC18Body(4, 7, 7, 2, verifHalf, 2) }
func VerifC18Pent3x3Centre() { verifC18Body(5, 6, 6, 3, verifCentre, 0) }

// ---------------------------------------------------------------- C04: shape fidelity

// verifMeetsClosed: closed segment meets the closed box.
func verifMeetsClosed(a, b verifPt, minx, miny, maxx, maxy int64) bool {
	// closed box = half-open box enlarged by one lattice unit is not exact for rational points: test the four
	// closed conditions through the half-open oracle on the box and on its closing sides.
	if verifMeets(a[0], a[1], b[0], b[1], minx, miny, maxx, maxy) {
		return true
	}
	// top side y = maxy, x in [minx, maxx]; right side x = maxx, y in [miny, maxy]
	return verifSegsIntersect(a, b, verifPt{minx, maxy}, verifPt{maxx, maxy}) ||
		verifSegsIntersect(a, b, verifPt{maxx, miny}, verifPt{maxx, maxy})
}

func verifC04Body(n, wx, wy, W, mode, idsel int) {
	ring, L := verifValidRing(n, wx, wy, W, mode)
	ids := verifIDs(idsel)
	for _, cfg := range verifCfgs() {
		res, panicked := verifSnapCatch(geom.Polygon{ring}, verifSyntheticTMS(2), ids, cfg)
		verifAssert(!panicked, "C04.O0.no-panic")
		if panicked {
			continue
		}
		verifC04Check(res, ids, [][]verifPt{L}, nil)
	}
}

// verifC04Check: O-1 vertex provenance, O-2 every output edge within half a pixel of one input edge, and (when probes
// are given) O-3 coverage agreement at every probe location farther than one pixel from the input boundary.
func verifC04Check(res map[tms20.TMID][]geom.Polygon, ids []tms20.TMID, L [][]verifPt, probes []verifPt) {
	for _, id := range ids {
		s := verifPixelSize(id)
		verifCover("checked")
		if len(res[id]) > 0 {
			verifCover("has-geometry")
		}
		// exactly routed boundary of every input ring at this tile matrix (computed once)
		hot := verifHotPixels(L, id)
		var routed [][]verifPt
		for _, ring := range L {
			routed = append(routed, verifRoutedRing(ring, hot, id))
		}
		for _, p := range res[id] {
			for _, r := range p {
				lr := verifLatticeRing(r)
				for _, c := range lr {
					found := false
					for _, ring := range L {
						for _, v := range ring {
							if verifIsCentreOf(c, v, id) {
								found = true
							}
						}
					}
					verifAssert(found, "C04.O1.vertex-is-centre-of-an-input-vertex-pixel")
				}
				if len(lr) >= 2 {
					for i := range lr {
						a, b := lr[i], lr[(i+1)%len(lr)]
						// an edge between two centres the exact routing of one input edge passes consecutively (or a
						// straight run of such) is within half a pixel of that input edge by convexity
						if verifEdgeIsRouted(a, b, routed) {
							continue
						}
						verifCover("edge-not-routed-geometric-test")
						near := false
						for _, ring := range L {
							for k := range ring {
								p0, p1 := ring[k], ring[(k+1)%len(ring)]
								if verifMeetsClosed(p0, p1, a[0]-s/2, a[1]-s/2, a[0]+s/2, a[1]+s/2) &&
									verifMeetsClosed(p0, p1, b[0]-s/2, b[1]-s/2, b[0]+s/2, b[1]+s/2) {
									near = true
								}
							}
						}
						verifAssert(near, "C04.O2.edge-within-half-pixel-of-an-input-edge")
					}
				}
			}
		}
		for _, probe := range probes {
			far := true
			for _, ring := range L {
				for k := range ring {
					if verifMeetsClosed(ring[k], ring[(k+1)%len(ring)], probe[0]-s, probe[1]-s, probe[0]+s, probe[1]+s) {
						far = false
					}
				}
			}
			inIn := false
			for _, ring := range L {
				in, _ := verifPointInRing(ring, probe)
				if in {
					inIn = !inIn
				}
			}
			inOut := false
			for _, p := range res[id] {
				for _, r := range p {
					lr := verifLatticeRing(r)
					if len(lr) < 3 {
						continue
					}
					in, _ := verifPointInRing(lr, probe)
					if in {
						inOut = !inOut
					}
				}
			}
			verifAssert(!far || inIn == inOut, "C04.O3.coverage-agrees-away-from-boundary")
		}
	}
}

// verifEdgeIsRouted: a->b is an edge (or straight run) of the exactly routed boundary of one of the input rings.
func verifEdgeIsRouted(a, b verifPt, routed [][]verifPt) bool {
	for _, rr := range routed {
		if len(rr) >= 2 && verifIsRoutedEdgeOrRun(a, b, rr) {
			return true
		}
	}
	return false
}

// template: a fixed square shell [4,12]^2 with a valid triangular hole in the 2x2 window (7..8)^2 (sub-pixel
// positions {1/4,3/4}); probes on the 49 pixel centres of [5,12)^2.
func VerifC04ShellWithHole() {
	shellL := []verifPt{{4 * verifSub, 4 * verifSub}, {12 * verifSub, 4 * verifSub}, {12 * verifSub, 12 * verifSub}, {4 * verifSub, 12 * verifSub}}
	hole, holeL := verifValidRing(3, 7, 7, 2, verifHalf)
	poly := geom.Polygon{verifRingOf(shellL), hole}
	var probes []verifPt
	for x := int64(5); x <= 11; x++ {
		for y := int64(5); y <= 11; y++ {
			probes = append(probes, verifPt{x*verifSub + verifSub/2, y*verifSub + verifSub/2})
		}
	}
	ids := []tms20.TMID{0, 1}
	for _, cfg := range []Config{{}, {KeepPointsAndLines: true, ReverseWindingOrder: true}} {
		res, panicked := verifSnapCatch(poly, verifSyntheticTMS(2), ids, cfg)
		verifAssert(!panicked, "C04.O0.no-panic")
		if panicked {
			continue
		}
		verifC04Check(res, ids, [][]verifPt{shellL, holeL}, probes)
	}
}

func VerifC04Tri2x2()      { verifC04Body(3, 7, 7, 2, verifFull, 0) }
func VerifC04Quad2x2Half() { verifC04Body(4, 7, 7, 2, verifHalf, 2) }

var _ = tms20.TMID(0)
