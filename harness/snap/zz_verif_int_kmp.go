package snap

import "github.com/go-spatial/geom"

func init() {
	verifHarnesses["VerifC06KmpChain"] = VerifC06KmpChain
	verifHarnesses["VerifC06KmpChainLong"] = VerifC06KmpChainLong
}

// Chain-level obligation for C06 (internal tier: kmpDeduplicate is unexported).
//
// kmpDeduplicate looks at its ring only through equality of points, so a ring is an arbitrary sequence a_0..a_{L-1}
// of K abstract point names with a_i != a_{i+1} (cyclically), which is what cleanupNewVertices/cleanupNewRing hand it.
// Under the executor the names are symbolic integers and kmpDeduplicate is run directly: no panic, no index out of
// range, instruction budget respected, for every such sequence.
//
// Every such sequence is the routed chain of a real (invalid, self-overlapping) polygon: put the K names on K pixels in
// strictly convex position, far enough apart that the segment between two of the centres meets no third pixel
// (verifKmpPixels; checked for all 60 segment/pixel triples when this harness was written), and give the polygon the
// vertices centre(a_0)..centre(a_{L-1}). The native replay of a counterexample therefore goes through the public API:
// SnapPolygon on that polygon must panic. A counterexample that does not reproduce there is not reported.
var verifKmpPixels = [5][2]int64{{2, 2}, {12, 3}, {14, 10}, {7, 14}, {1, 9}}

func verifKmpChain(maxLen int64) {
	L := verifConcretizeInt(int(verifNondetInt("L", 3, maxLen)))
	names := make([]int64, L)
	for i := range names {
		names[i] = verifNondetInt("a"+verifItoa(i), 0, 4)
		if i > 0 {
			verifAssume(names[i] != names[i-1])
		}
	}
	verifAssume(names[0] != names[L-1])
	verifCover("chain")
	if verifSymbolic() {
		ring := make([][2]float64, L)
		for i, a := range names {
			ring[i] = [2]float64{verifDyadicOf(a, 0), 0}
		}
		panicked := verifKmpCatch(ring)
		verifAssert(!panicked, "C06.O2.kmp-chain-no-panic")
		return
	}
	ring := make([][2]float64, L)
	for i, a := range names {
		p := verifKmpPixels[a]
		ring[i] = [2]float64{float64(p[0]) + 0.5, float64(p[1]) + 0.5}
	}
	_, panicked := verifSnapCatch(geom.Polygon{ring}, verifSyntheticTMS(2), verifIDs(0), Config{})
	verifAssert(!panicked, "C06.O2.kmp-chain-no-panic")
}

func verifKmpCatch(ring [][2]float64) (panicked bool) {
	defer func() {
		if r := recover(); r != nil {
			panicked = true
		}
	}()
	kmpDeduplicate(ring)
	return false
}

func VerifC06KmpChain()     { verifKmpChain(12) }
func VerifC06KmpChainLong() { verifKmpChain(16) }
