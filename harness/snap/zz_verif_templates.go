package snap

// Pixel templates: polygons whose vertices are pinned to given pixels (sub-pixel positions symbolic), built to reach
// behaviour that needs more vertices than the free-form harnesses afford: a thin shell that collapses at the coarse
// tile matrix but not at the fine one, with a hole; a shell pinching off; a hole touching the shell.

import (
	"github.com/go-spatial/geom"
	"github.com/pdok/texel/tms20"
)

func init() {
	verifHarnesses["VerifC06ThinShellHole"] = VerifC06ThinShellHole
	verifHarnesses["VerifC08ThinShellHole"] = VerifC08ThinShellHole
	verifHarnesses["VerifC05ThinShellHole"] = VerifC05ThinShellHole
	verifHarnesses["VerifC01ThinShellHole"] = VerifC01ThinShellHole
}

// verifPinned: vertex in pixel (px,py) of tile matrix 0, sub-pixel position per mode.
func verifPinned(name string, px, py, mode int) ([2]float64, verifPt) {
	x := int64(px)*verifSub + verifOffset(name+".u", mode)
	y := int64(py)*verifSub + verifOffset(name+".v", mode)
	return [2]float64{verifDyadicOf(x, 10), verifDyadicOf(y, 10)}, verifPt{x, y}
}

func verifPinnedRing(name string, pix [][2]int, mode int) ([][2]float64, []verifPt) {
	ring := make([][2]float64, len(pix))
	L := make([]verifPt, len(pix))
	for i, p := range pix {
		ring[i], L[i] = verifPinned(name+verifItoa(i), p[0], p[1], mode)
	}
	return ring, L
}

// verifHoleInside: every hole vertex strictly inside the shell and no hole edge touches a shell edge.
func verifHoleInside(shell, hole []verifPt) bool {
	ok := true
	for _, v := range hole {
		in, on := verifPointInRing(shell, v)
		if !in || on {
			ok = false
		}
	}
	for i := range hole {
		for j := range shell {
			if verifSegsIntersect(hole[i], hole[(i+1)%len(hole)], shell[j], shell[(j+1)%len(shell)]) {
				ok = false
			}
		}
	}
	return ok
}

// verifJitter: a lattice coordinate base + k*step with k in [0,n] symbolic.
func verifJitter(name string, base, step int64, n int64) int64 {
	return base + step*verifNondetInt(name, 0, n)
}

func verifRingOf(L []verifPt) [][2]float64 {
	r := make([][2]float64, len(L))
	for i, p := range L {
		r[i] = [2]float64{verifDyadicOf(p[0], 10), verifDyadicOf(p[1], 10)}
	}
	return r
}

// verifThinShellHole: a convex quadrilateral shell over the pixels (7,7),(8,7) of tile matrix 0 only (so it collapses
// there) spanning both pixel rows of tile matrix 1, with a triangular hole inside that also survives at tile matrix 1
// only. The corner positions jitter symbolically in ranges that keep the polygon valid by construction (no validity
// assumption is needed, which keeps the solver queries small).
func verifThinShellHole() (geom.Polygon, [][]verifPt) {
	const e = verifSub / 8
	ls := []verifPt{
		{verifJitter("s0x", 7*verifSub+e, e, 1), 7*verifSub + e},
		{verifJitter("s1x", 8*verifSub+6*e, e, 1), verifJitter("s1y", 7*verifSub+e, e, 1)},
		{verifJitter("s2x", 8*verifSub+6*e, e, 1), 7*verifSub + 7*e},
		{verifJitter("s3x", 7*verifSub+e, e, 1), verifJitter("s3y", 7*verifSub+6*e, e, 1)},
	}
	lh := []verifPt{
		{verifJitter("h0x", 7*verifSub+4*e, e, 1), 7*verifSub + 3*e},
		{verifJitter("h2x", 8*verifSub, e, 1), 7*verifSub + 5*e},
		{verifJitter("h1x", 8*verifSub+2*e, e, 1), 7*verifSub + 3*e},
	}
	return geom.Polygon{verifRingOf(ls), verifRingOf(lh)}, [][]verifPt{ls, lh}
}

func VerifC06ThinShellHole() {
	poly, _ := verifThinShellHole()
	for _, cfg := range verifCfgs() {
		for _, ids := range [][]tms20.TMID{{0, 1}, {1, 0}, {1}} {
			_, panicked := verifSnapCatch(poly, verifSyntheticTMS(2), ids, cfg)
			verifCover("ran")
			verifAssert(!panicked, "C06.O1.no-panic")
		}
	}
}

func VerifC08ThinShellHole() {
	poly, _ := verifThinShellHole()
	for _, cfg := range verifCfgs() {
		for _, pair := range [][]tms20.TMID{{0, 1}, {1, 0}, {1, 2}} {
			verifC08One(poly, cfg, pair)
		}
	}
	verifCover("compared")
}

func VerifC05ThinShellHole() {
	poly, _ := verifThinShellHole()
	for _, reverse := range []bool{false, true} {
		verifC05One(poly, reverse, []tms20.TMID{0, 1})
	}
}

func VerifC01ThinShellHole() {
	poly, _ := verifThinShellHole()
	for _, cfg := range verifCfgs() {
		res, panicked := verifSnapCatch(poly, verifSyntheticTMS(2), []tms20.TMID{0, 1}, cfg)
		verifAssert(!panicked, "C01.O1.no-panic")
		if panicked {
			continue
		}
		verifCover("snapped")
		for _, id := range []tms20.TMID{0, 1} {
			es := verifEdgesOf(res[id])
			if len(es) > 0 {
				verifCover("has-geometry")
			}
			ok := true
			for i := 0; i < len(es); i++ {
				for j := i + 1; j < len(es); j++ {
					if verifProperCross(es[i].a, es[i].b, es[j].a, es[j].b) {
						ok = false
					}
				}
			}
			verifAssert(ok, "C01.O1.no-proper-crossing")
		}
	}
}

func init() {
	verifHarnesses["VerifC05BowtieHole"] = VerifC05BowtieHole
	verifHarnesses["VerifC06BowtieHole"] = VerifC06BowtieHole
	verifHarnesses["VerifC05BowtieHoleEighth"] = VerifC05BowtieHoleEighth
}

// verifBowtieHole: a fixed square shell around the window and a self-crossing four-vertex hole whose vertices are
// pinned to the pixels (5,5),(10,5),(5,10),(10,10) in Z order (two lobes of nearly equal size) (an invalid polygon: the hole's net orientation depends on the
// sub-pixel positions and on the tile matrix).
func verifBowtieHole(mode int) geom.Polygon {
	shell := [][2]float64{{2, 2}, {14, 2}, {14, 14}, {2, 14}}
	hole, _ := verifPinnedRing("h", [][2]int{{5, 5}, {10, 5}, {5, 10}, {10, 10}}, mode)
	return geom.Polygon{shell, hole}
}

// quick variant: two of the four hole vertices jitter on the 1/8-pixel lattice, the other two sit on pixel centres
func VerifC05BowtieHole() {
	shell := [][2]float64{{2, 2}, {14, 2}, {14, 14}, {2, 14}}
	h01, _ := verifPinnedRing("h", [][2]int{{5, 5}, {10, 5}}, verifEighth)
	hole := [][2]float64{h01[0], h01[1], {5.5, 10.5}, {10.5, 10.5}}
	for _, reverse := range []bool{false, true} {
		verifC05One(geom.Polygon{shell, hole}, reverse, []tms20.TMID{1, 0})
	}
}

func VerifC05BowtieHoleEighth() {
	poly := verifBowtieHole(verifEighth)
	verifC05One(poly, false, []tms20.TMID{1})
}

func VerifC06BowtieHole() {
	poly := verifBowtieHole(verifHalf)
	for _, cfg := range verifCfgs() {
		_, panicked := verifSnapCatch(poly, verifSyntheticTMS(2), []tms20.TMID{0, 1}, cfg)
		verifCover("ran")
		verifAssert(!panicked, "C06.O1.no-panic")
	}
}
