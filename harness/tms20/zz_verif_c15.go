package tms20

import (
	"math"

	"github.com/go-spatial/geom"
	"github.com/go-spatial/geom/slippy"
)

var verifHarnesses = map[string]func(){}

func init() {
	verifHarnesses["VerifC15SmallMatrices"] = VerifC15SmallMatrices
	verifHarnesses["VerifC15BorderSlicesQuick"] = VerifC15BorderSlicesQuick
	verifHarnesses["VerifC15BorderSlicesThorough"] = VerifC15BorderSlicesThorough
	verifHarnesses["VerifC15BoundingBox"] = VerifC15BoundingBox
	verifHarnesses["VerifC15BorderTiles"] = VerifC15BorderTiles
}

func verifMaxID(tms TileMatrixSet) int {
	m := 0
	for id := range tms.TileMatrices {
		if id > m {
			m = id
		}
	}
	return m
}

func verifItoa(i int) string {
	if i == 0 {
		return "0"
	}
	s := ""
	for i > 0 {
		s = string(rune('0'+i%10)) + s
		i /= 10
	}
	return s
}

// verifTileRoundTrip: corner of tile (tx,ty) from ToNative, the tile's centre (corner + half a tile, in x,y order
// whatever the CRS axis order and corner convention), FromNative of the centre must give (tx,ty) again.
func verifTileRoundTrip(tms *TileMatrixSet, id int, tx, ty uint) {
	tm := tms.TileMatrices[id]
	corner, ok := tms.ToNative(slippy.NewTile(uint(id), tx, ty))
	verifAssert(ok, "C15.O1.tonative-accepts-tile")
	sx := float64(tm.TileWidth) * tm.CellSize
	sy := float64(tm.TileHeight) * tm.CellSize
	// ToNative returns the top-left corner in x,y order: the centre is half a tile right and half a tile down
	centre := geom.Point{corner[0] + sx/2, corner[1] - sy/2}
	got, found := tms.FromNative(uint(id), centre)
	verifCover("roundtrip")
	verifAssert(found, "C15.O1.centre-maps-to-a-tile")
	if found {
		verifAssert(got.X == tx && got.Y == ty && got.Z == uint(id), "C15.O1.centre-maps-to-its-tile")
	}
	// half a tile outside the matrix on each side maps to no tile
	if tx == 0 {
		_, f := tms.FromNative(uint(id), geom.Point{corner[0] - sx/2, corner[1] - sy/2})
		verifAssert(!f, "C15.O2.left-of-matrix-maps-to-no-tile")
	}
	if tx == tm.MatrixWidth-1 {
		_, f := tms.FromNative(uint(id), geom.Point{corner[0] + sx + sx/2, corner[1] - sy/2})
		verifAssert(!f, "C15.O2.right-of-matrix-maps-to-no-tile")
	}
	if ty == 0 {
		_, f := tms.FromNative(uint(id), verifAbove(tms, id, centre, sy))
		verifAssert(!f, "C15.O2.before-first-row-maps-to-no-tile")
	}
	if ty == tm.MatrixHeight-1 {
		_, f := tms.FromNative(uint(id), verifBelow(tms, id, centre, sy))
		verifAssert(!f, "C15.O2.after-last-row-maps-to-no-tile")
	}
}

// rows are numbered downwards from a top-left origin and upwards from a bottom-left origin
func verifAbove(tms *TileMatrixSet, id int, centre geom.Point, sy float64) geom.Point {
	if tms.TileMatrices[id].CornerOfOrigin == BottomLeft {
		return geom.Point{centre[0], centre[1] - sy}
	}
	return geom.Point{centre[0], centre[1] + sy}
}

func verifBelow(tms *TileMatrixSet, id int, centre geom.Point, sy float64) geom.Point {
	if tms.TileMatrices[id].CornerOfOrigin == BottomLeft {
		return geom.Point{centre[0], centre[1] + sy}
	}
	return geom.Point{centre[0], centre[1] - sy}
}

func verifPickSet() (string, TileMatrixSet) {
	name := verifTMSNames[verifConcretizeInt(int(verifNondetInt("set", 0, int64(len(verifTMSNames)-1))))]
	return name, verifTMS(name)
}

// every tile of every matrix up to 8x8 tiles (addresses case-split)
func VerifC15SmallMatrices() {
	_, tms := verifPickSet()
	id := verifConcretizeInt(int(verifNondetInt("id", 0, 3)))
	tm, ok := tms.TileMatrices[id]
	verifAssume(ok && tm.VariableMatrixWidths == nil && tm.MatrixWidth <= 16 && tm.MatrixHeight <= 16)
	tx := verifConcretizeUint(uint(verifNondetUint("tx", 0, uint64(tm.MatrixWidth-1))))
	ty := verifConcretizeUint(uint(verifNondetUint("ty", 0, uint64(tm.MatrixHeight-1))))
	verifTileRoundTrip(&tms, id, tx, ty)
}

// symbolic tile address along one axis (the other fixed to the first or last row/column) in a slice of `width`
// columns or rows at the low or high end of a large matrix (exact IEEE-754 semantics)
func verifC15Slices(id int, tms TileMatrixSet, width uint64) {
	tm, ok := tms.TileMatrices[id]
	verifAssume(ok && tm.VariableMatrixWidths == nil && uint64(tm.MatrixWidth) >= width && uint64(tm.MatrixHeight) >= width)
	alongX := verifConcretizeBool(verifNondetBool("alongx"))
	high := verifConcretizeBool(verifNondetBool("high"))
	otherHigh := verifConcretizeBool(verifNondetBool("otherhigh"))
	var tx, ty uint
	if alongX {
		o := uint64(0)
		if high {
			o = uint64(tm.MatrixWidth) - width
		}
		tx = uint(verifNondetUint("t", o, o+width-1))
		if otherHigh {
			ty = tm.MatrixHeight - 1
		}
	} else {
		o := uint64(0)
		if high {
			o = uint64(tm.MatrixHeight) - width
		}
		ty = uint(verifNondetUint("t", o, o+width-1))
		if otherHigh {
			tx = tm.MatrixWidth - 1
		}
	}
	verifTileRoundTrip(&tms, id, tx, ty)
}

// border tiles of the larger matrices, addresses case-split (8 lowest / highest columns x first, last row and
// vice versa): evaluated concretely through the interpreter
func VerifC15BorderTiles() {
	_, tms := verifPickSet()
	id := verifConcretizeInt(int(verifNondetInt("id", 4, int64(verifMaxID(tms)))))
	tm, ok := tms.TileMatrices[id]
	verifAssume(ok && tm.VariableMatrixWidths == nil && tm.MatrixWidth > 16 && tm.MatrixHeight > 16)
	k := uint(verifConcretizeUint(uint(verifNondetUint("k", 0, 7))))
	alongX := verifConcretizeBool(verifNondetBool("alongx"))
	high := verifConcretizeBool(verifNondetBool("high"))
	otherHigh := verifConcretizeBool(verifNondetBool("otherhigh"))
	var tx, ty uint
	if alongX {
		tx = k
		if high {
			tx = tm.MatrixWidth - 1 - k
		}
		if otherHigh {
			ty = tm.MatrixHeight - 1
		}
	} else {
		ty = k
		if high {
			ty = tm.MatrixHeight - 1 - k
		}
		if otherHigh {
			tx = tm.MatrixWidth - 1
		}
	}
	verifTileRoundTrip(&tms, id, tx, ty)
}

func VerifC15BorderSlicesQuick() {
	name := []string{"NetherlandsRDNewQuad", "WebMercatorQuad", "WorldCRS84Quad"}[verifConcretizeInt(int(verifNondetInt("set", 0, 2)))]
	tms := verifTMS(name)
	verifC15Slices(verifMaxID(tms)/2+2, tms, 32)
}

func VerifC15BorderSlicesThorough() {
	_, tms := verifPickSet()
	id := verifConcretizeInt(int(verifNondetInt("id", 0, int64(verifMaxID(tms)))))
	verifC15Slices(id, tms, 256)
}

// O-3: the bounding box spans from the corner of tile (0,0) to the corner of tile (width,height); ToNative rejects beyond.
func VerifC15BoundingBox() {
	_, tms := verifPickSet()
	id := verifConcretizeInt(int(verifNondetInt("id", 0, int64(verifMaxID(tms)))))
	tm, ok := tms.TileMatrices[id]
	verifAssume(ok && tm.VariableMatrixWidths == nil)
	bl, tr, err := tms.MatrixBoundingBox(id)
	verifAssert(err == nil, "C15.O3.bbox-available")
	c00, ok0 := tms.ToNative(slippy.NewTile(uint(id), 0, 0))
	cwh, ok1 := tms.ToNative(slippy.NewTile(uint(id), tm.MatrixWidth, tm.MatrixHeight))
	verifCover("bbox")
	verifAssert(ok0 && ok1, "C15.O3.tonative-accepts-one-past-the-end")
	_, ok2 := tms.ToNative(slippy.NewTile(uint(id), tm.MatrixWidth+1, 0))
	_, ok3 := tms.ToNative(slippy.NewTile(uint(id), 0, tm.MatrixHeight+1))
	verifAssert(!ok2 && !ok3, "C15.O3.tonative-rejects-beyond")
	// tile (0,0)'s corner is the top-left (or, for bottom-left origins, ToNative still returns the top-left corner of the tile)
	// the two are computed by different (mathematically equal) float formulas: equal up to float resolution
	verifAssert(verifClose(bl[0], c00[0]) && verifClose(tr[0], cwh[0]), "C15.O3.bbox-x-spans-corner-to-corner")
	if tm.CornerOfOrigin == BottomLeft {
		// rows counted upwards: tile (0,0) is the bottom row, its top-left corner is one tile above the bottom
		sy := float64(tm.TileHeight) * tm.CellSize
		verifAssert(verifClose(c00[1]-sy, bl[1]) && verifClose(cwh[1]-sy, tr[1]), "C15.O3.bbox-y-spans-corner-to-corner")
	} else {
		verifAssert(verifClose(tr[1], c00[1]) && verifClose(bl[1], cwh[1]), "C15.O3.bbox-y-spans-corner-to-corner")
	}
	verifAssert(bl[0] < tr[0] && bl[1] < tr[1], "C15.O3.bbox-is-in-x-y-order-and-non-empty")
}

// verifClose: equal up to the 9-decimal rounding of the API plus 8 ulp of the coordinate magnitude
func verifClose(a, b float64) bool {
	m := math.Max(math.Abs(a), math.Abs(b))
	tol := 2e-9 + 8*(math.Nextafter(m, math.Inf(1))-m)
	d := a - b
	return d <= tol && d >= -tol
}
