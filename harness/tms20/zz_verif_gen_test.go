package tms20

// Native helper (not interpreted): loads every embedded tile matrix set with the decoder of the current tree and
// prints it as Go composite literals, so that harnesses can use the built-in sets as ordinary data.
// The CRS is replaced by verifCRS, which returns the same Authority/Version/Code/Description strings.

import (
	"fmt"
	"os"
	"sort"
	"strconv"
	"strings"
	"testing"
)

func verifF(f float64) string {
	s := strconv.FormatFloat(f, 'g', -1, 64)
	if !strings.ContainsAny(s, ".eEIN") {
		s += ".0"
	}
	return s
}

func TestVerifGenTMS(t *testing.T) {
	out := os.Getenv("VERIF_GEN_OUT")
	if out == "" {
		t.Skip("VERIF_GEN_OUT not set")
	}
	entries, err := embeddedTileMatrixSetsJSONFS.ReadDir("tilematrixsets")
	if err != nil {
		t.Fatal(err)
	}
	var names []string
	for _, e := range entries {
		if strings.HasSuffix(e.Name(), ".json") {
			names = append(names, strings.TrimSuffix(e.Name(), ".json"))
		}
	}
	sort.Strings(names)
	var sb strings.Builder
	sb.WriteString("package PKGNAME\n\n// Code generated natively from /repo's embedded tile matrix sets on this run. DO NOT EDIT.\n\nIMPORT\n")
	sb.WriteString("type verifCRS struct{ auth, version, code, desc string }\n\n")
	sb.WriteString("func (c verifCRS) Description() string { return c.desc }\nfunc (c verifCRS) Authority() string   { return c.auth }\nfunc (c verifCRS) Version() string     { return c.version }\nfunc (c verifCRS) Code() string        { return c.code }\n\n")
	sb.WriteString("var verifTMSNames = []string{")
	for _, n := range names {
		fmt.Fprintf(&sb, "%q, ", n)
	}
	sb.WriteString("}\n\n")
	sb.WriteString("func verifTMS(name string) TMSQ.TileMatrixSet {\n\tswitch name {\n")
	for _, n := range names {
		tms, err := LoadEmbeddedTileMatrixSet(n)
		if err != nil {
			t.Fatalf("%s: %v", n, err)
		}
		fmt.Fprintf(&sb, "\tcase %q:\n\t\treturn verifTMS_%s()\n", n, n)
		_ = tms
	}
	sb.WriteString("\t}\n\tpanic(\"unknown tile matrix set \" + name)\n}\n\n")
	for _, n := range names {
		tms, _ := LoadEmbeddedTileMatrixSet(n)
		fmt.Fprintf(&sb, "func verifTMS_%s() TMSQ.TileMatrixSet {\n", n)
		var auth, ver, code, desc string
		func() {
			defer func() { recover() }()
			desc = tms.CRS.Description()
			auth = tms.CRS.Authority()
			ver = tms.CRS.Version()
			code = tms.CRS.Code()
		}()
		fmt.Fprintf(&sb, "\ttms := TMSQ.TileMatrixSet{\n\t\tID: %q,\n\t\tOrderedAxes: %#v,\n\t\tCRS: verifCRS{%q, %q, %q, %q},\n\t\tTileMatrices: map[TMSQ.TMID]TMSQ.TileMatrix{},\n\t}\n", tms.ID, tms.OrderedAxes, auth, ver, code, desc)
		ids := make([]int, 0)
		for id := range tms.TileMatrices {
			ids = append(ids, id)
		}
		sort.Ints(ids)
		for _, id := range ids {
			tm := tms.TileMatrices[id]
			fmt.Fprintf(&sb, "\ttms.TileMatrices[%d] = TMSQ.TileMatrix{ID: %q, ScaleDenominator: %s, CellSize: %s, CornerOfOrigin: %q, PointOfOrigin: &TMSQ.TwoDPoint{%s, %s}, TileWidth: %d, TileHeight: %d, MatrixWidth: %d, MatrixHeight: %d",
				id, tm.ID, verifF(tm.ScaleDenominator), verifF(tm.CellSize), string(tm.CornerOfOrigin), verifF(tm.PointOfOrigin[0]), verifF(tm.PointOfOrigin[1]), tm.TileWidth, tm.TileHeight, tm.MatrixWidth, tm.MatrixHeight)
			if tm.VariableMatrixWidths != nil {
				sb.WriteString(", VariableMatrixWidths: []TMSQ.VariableMatrixWidth{")
				for _, v := range tm.VariableMatrixWidths {
					fmt.Fprintf(&sb, "{Coalesce: %d, MinTileRow: %d, MaxTileRow: %d}, ", v.Coalesce, v.MinTileRow, v.MaxTileRow)
				}
				sb.WriteString("}")
			}
			sb.WriteString("}\n")
		}
		sb.WriteString("\treturn tms\n}\n\n")
	}
	if err := os.WriteFile(out, []byte(sb.String()), 0o644); err != nil {
		t.Fatal(err)
	}
}
