package processing

import (
	"github.com/go-spatial/geom"
	"github.com/pdok/texel/tms20"
)

var verifHarnesses = map[string]func(){}

func init() {
	verifHarnesses["VerifC10Stream"] = VerifC10Stream
	verifHarnesses["VerifC10StreamLong"] = VerifC10StreamLong
}

type verifFeature struct {
	cols []interface{}
	g    geom.Geometry
}

func (f *verifFeature) Columns() []interface{}  { return f.cols }
func (f *verifFeature) Geometry() geom.Geometry { return f.g }

type verifSource struct{ feats []Feature }

func (s *verifSource) ReadFeatures(ch chan<- Feature) {
	for _, f := range s.feats {
		ch <- f
	}
	close(ch)
}

type verifTarget struct {
	id   int
	got  []Feature
	done bool
}

func (t *verifTarget) WriteFeatures(ch <-chan Feature) {
	for f := range ch {
		t.got = append(t.got, f)
	}
	verifSlow()
	t.done = true
}

// the polygon a stub snapping function returns: identified by (feature index, part index, tile matrix id, piece)
func verifStubPolygon(fi, part, id, piece int) geom.Polygon {
	return geom.Polygon{{{float64(fi), float64(part)}, {float64(id), float64(piece)}, {1, 1}}}
}

func verifSamePolygon(a, b geom.Polygon) bool {
	if len(a) != len(b) {
		return false
	}
	for i := range a {
		if len(a[i]) != len(b[i]) {
			return false
		}
		for j := range a[i] {
			if a[i][j] != b[i][j] {
				return false
			}
		}
	}
	return true
}

// verifC10Body: a stream of k features (polygon / multipolygon of 1..2 parts / point), nTargets targets; the snapping
// function is a stub that, per polygon and tile matrix, returns nothing, one polygon or two polygons.
func verifC10Body(k, nTargets int) {
	ids := []tms20.TMID{3, 7, 5}[:nTargets]
	// outcome[fi][part][idIdx] in {0: absent, 1: one polygon, 2: two polygons}
	kinds := make([]int, k)
	parts := make([]int, k)
	outcome := make([][][]int, k)
	src := &verifSource{}
	inputPolys := map[[2]float64][2]int{} // tag vertex -> (feature, part)
	for fi := 0; fi < k; fi++ {
		sfx := verifItoa(fi)
		kinds[fi] = verifConcretizeInt(int(verifNondetInt("kind"+sfx, 0, 2)))
		col := verifNondetInt("col"+sfx, -1000, 1000)
		f := &verifFeature{cols: []interface{}{col, "name" + sfx}}
		switch kinds[fi] {
		case 0: // polygon
			parts[fi] = 1
			f.g = geom.Polygon{{{float64(100 + fi), 0}, {0, 0}, {0, 1}}}
			inputPolys[[2]float64{float64(100 + fi), 0}] = [2]int{fi, 0}
		case 1: // multipolygon
			parts[fi] = 1 + verifConcretizeInt(int(verifNondetInt("parts"+sfx, 0, 1)))
			mp := geom.MultiPolygon{}
			for p := 0; p < parts[fi]; p++ {
				mp = append(mp, geom.Polygon{{{float64(100 + fi), float64(p)}, {0, 0}, {0, 1}}})
				inputPolys[[2]float64{float64(100 + fi), float64(p)}] = [2]int{fi, p}
			}
			f.g = mp
		default: // not a polygon
			parts[fi] = 0
			f.g = geom.Point{float64(fi), 42}
		}
		outcome[fi] = make([][]int, parts[fi])
		for p := 0; p < parts[fi]; p++ {
			outcome[fi][p] = make([]int, nTargets)
			for t := 0; t < nTargets; t++ {
				outcome[fi][p][t] = verifConcretizeInt(int(verifNondetInt("out"+sfx+"_"+verifItoa(p)+"_"+verifItoa(t), 0, 2)))
			}
		}
		src.feats = append(src.feats, f)
	}
	stub := func(p geom.Polygon, tmIDs []tms20.TMID) map[tms20.TMID][]geom.Polygon {
		who := inputPolys[p[0][0]]
		res := map[tms20.TMID][]geom.Polygon{}
		for _, id := range tmIDs {
			t := 0
			for i := range ids {
				if ids[i] == id {
					t = i
				}
			}
			for piece := 0; piece < outcome[who[0]][who[1]][t]; piece++ {
				res[id] = append(res[id], verifStubPolygon(who[0], who[1], id, piece))
			}
		}
		return res
	}
	targets := map[tms20.TMID]Target{}
	vts := make([]*verifTarget, nTargets)
	for t := 0; t < nTargets; t++ {
		vts[t] = &verifTarget{id: ids[t]}
		targets[ids[t]] = vts[t]
	}

	ProcessFeatures(src, targets, stub)
	verifEvent("returned")

	verifCover("returned")
	for t := 0; t < nTargets; t++ {
		verifAssert(vts[t].done, "C11.O2.returns-only-after-every-target-finished")
		// expected sequence for this target
		var want []int // feature indices
		for fi := 0; fi < k; fi++ {
			if kinds[fi] == 2 {
				want = append(want, fi)
				continue
			}
			n := 0
			for p := 0; p < parts[fi]; p++ {
				n += outcome[fi][p][t]
			}
			if n > 0 {
				want = append(want, fi)
			}
		}
		got := vts[t].got
		verifAssert(len(got) == len(want), "C10.O1.each-feature-exactly-once-iff-it-has-geometry-for-the-target")
		if len(got) != len(want) {
			continue
		}
		for i, fi := range want {
			g := got[i]
			orig := src.feats[fi].(*verifFeature)
			cols := g.Columns()
			verifAssert(len(cols) == 2 && cols[0] == orig.cols[0] && cols[1] == orig.cols[1], "C10.O2.source-order-and-original-attributes")
			ft, isFT := g.(FeatureForTileMatrix)
			verifAssert(isFT && ft.TileMatrixID() == ids[t], "C10.O3.addressed-to-this-target")
			switch kinds[fi] {
			case 2:
				pt, ok := g.Geometry().(geom.Point)
				verifAssert(ok && pt == orig.g.(geom.Point), "C10.O4.non-polygon-geometry-untouched")
			default:
				// the pieces computed for this tile matrix, parts in order
				var exp []geom.Polygon
				for p := 0; p < parts[fi]; p++ {
					for piece := 0; piece < outcome[fi][p][t]; piece++ {
						exp = append(exp, verifStubPolygon(fi, p, ids[t], piece))
					}
				}
				switch gg := g.Geometry().(type) {
				case geom.Polygon:
					verifAssert(kinds[fi] == 0 && len(exp) == 1 && verifSamePolygon(gg, exp[0]), "C10.O5.geometry-is-the-one-computed-for-this-tile-matrix")
				case geom.MultiPolygon:
					ok := len(gg) == len(exp) && (kinds[fi] == 1 || len(exp) > 1)
					for j := 0; ok && j < len(exp); j++ {
						ok = verifSamePolygon(gg[j], exp[j])
					}
					verifAssert(ok, "C10.O5.geometry-is-the-one-computed-for-this-tile-matrix")
				default:
					verifAssert(false, "C10.O5.geometry-is-the-one-computed-for-this-tile-matrix")
				}
			}
		}
	}
}

func verifItoa(i int) string {
	if i == 0 {
		return "0"
	}
	s := ""
	for i > 0 {
		s = string(rune('0'+i%10)) + s
		i /= 10
	}
	return s
}

func VerifC10Stream() {
	k := verifConcretizeInt(int(verifNondetInt("k", 0, 2)))
	n := verifConcretizeInt(int(verifNondetInt("targets", 1, 2)))
	verifC10Body(k, n)
}

func VerifC10StreamLong() {
	k := verifConcretizeInt(int(verifNondetInt("k", 0, 3)))
	n := verifConcretizeInt(int(verifNondetInt("targets", 1, 3)))
	verifC10Body(k, n)
}
