#!/usr/bin/env python3
# instantiates the shared harness templates for every harness package
import os
here=os.path.dirname(os.path.abspath(__file__))
for tmpl,out,pkgs in [('api.go.tmpl','zz_verif_api.go',['morton','pointindex','snap','tms20','processing']),
                      ('oracle.go.tmpl','zz_verif_oracle.go',['pointindex','snap'])]:
    s=open(os.path.join(here,tmpl)).read()
    for p in pkgs:
        d=os.path.join(here,p)
        if os.path.isdir(d):
            open(os.path.join(d,out),'w').write(s.replace('PKGNAME',p))
