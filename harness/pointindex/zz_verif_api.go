package pointindex

// Harness API. Under the symbolic executor (gosmt) calls to these functions are intercepted by name and the
// bodies below are never interpreted. Compiled natively (go test -overlay) the bodies read a replay vector,
// so that a solver model can be re-run against the real build.

import (
	"encoding/json"
	"fmt"
	"math"
	"math/big"
	"os"
	"strconv"
	"time"
)

type verifAssertFailed struct{ id string }
type verifAssumeFailed struct{}

var verifReplay map[string]string
var verifFailed []string
var verifCovered = map[string]bool{}

func verifLoadReplay() {
	if verifReplay != nil {
		return
	}
	verifReplay = map[string]string{}
	path := os.Getenv("VERIF_REPLAY")
	if path == "" {
		return
	}
	b, err := os.ReadFile(path)
	if err != nil {
		panic(err)
	}
	var doc struct {
		Inputs map[string]string `json:"inputs"`
	}
	if err := json.Unmarshal(b, &doc); err != nil {
		panic(err)
	}
	verifReplay = doc.Inputs
}

func verifLookup(name string) (string, bool) {
	verifLoadReplay()
	s, ok := verifReplay[name]
	return s, ok
}

func verifNondetInt(name string, lo, hi int64) int64 {
	s, ok := verifLookup(name)
	if !ok {
		if lo > 0 {
			return lo
		}
		if hi < 0 {
			return hi
		}
		return 0
	}
	v, err := strconv.ParseInt(s, 10, 64)
	if err != nil {
		panic(fmt.Sprintf("replay: bad int %q for %s", s, name))
	}
	if v < lo || v > hi {
		panic(verifAssumeFailed{})
	}
	return v
}

func verifNondetUint(name string, lo, hi uint64) uint64 {
	s, ok := verifLookup(name)
	if !ok {
		return lo
	}
	v, err := strconv.ParseUint(s, 10, 64)
	if err != nil {
		panic(fmt.Sprintf("replay: bad uint %q for %s", s, name))
	}
	if v < lo || v > hi {
		panic(verifAssumeFailed{})
	}
	return v
}

func verifNondetBool(name string) bool {
	s, _ := verifLookup(name)
	return s == "true"
}

// verifNondetDyadic returns n / 2^shift for an integer n in [lo, hi].
func verifNondetDyadic(name string, lo, hi int64, shift uint) float64 {
	return float64(verifNondetInt(name, lo, hi)) / math.Ldexp(1, int(shift))
}

// verifFloatOfInt1e10 returns a float64 near n / 1e10. Under the executor the float step of intgeom.FromGeomOrd is
// abstracted: int64(f * 1e10) is n by definition, so harnesses must obtain the integer they reason about from
// intgeom.FromGeomOrd(f) (natively that is whatever the real code computes from this float).
func verifFloatOfInt1e10(n int64) float64 {
	return float64(n) / 1e10
}

// verifDyadicOf returns the float64 n / 2^shift (exact for |n| < 2^53).
func verifDyadicOf(n int64, shift uint) float64 {
	return float64(n) / math.Ldexp(1, int(shift))
}

func verifNondetFloat64(name string) float64 {
	s, ok := verifLookup(name)
	if !ok {
		return 0
	}
	u, err := strconv.ParseUint(s, 0, 64)
	if err != nil {
		panic(fmt.Sprintf("replay: bad float bits %q for %s", s, name))
	}
	return math.Float64frombits(u)
}

func verifAssume(c bool) {
	if !c {
		panic(verifAssumeFailed{})
	}
}

func verifAssert(c bool, id string) {
	if !c {
		verifFailed = append(verifFailed, id)
	}
}

func verifCover(label string) { verifCovered[label] = true }

// verifEvent marks a point in the current goroutine's event sequence (used by the schedule analysis of C11).
func verifEvent(name string) {}

// verifSlow makes a fake pipeline stage slow natively (so that a missing wait shows up in replays); a yield under the executor.
func verifSlow() { time.Sleep(30 * time.Millisecond) }

// verifMapOrder selects how the executor iterates Go maps from now on: 0 = insertion order, 1 = every range over a
// map with two or more entries forks between forward and reversed order, 2 = always reversed. Natively a no-op
// (the Go runtime randomises).
func verifMapOrder(mode int) {}

// verifEmit records an output string (translator validation: interpreter and native build must emit the same).
func verifEmit(s string) { fmt.Printf("VERIF-EMIT %s\n", s) }
func verifNote(string)        {}

func verifConcretizeInt(x int) int       { return x }
func verifConcretizeUint(x uint) uint    { return x }
func verifConcretizeInt64(x int64) int64 { return x }
func verifConcretizeBool(x bool) bool    { return x }
func verifSymbolic() bool                { return false }

// verifMulCmp returns the sign of a*b - c*d computed exactly.
func verifMulCmp(a, b, c, d int64) int {
	l := new(big.Int).Mul(big.NewInt(a), big.NewInt(b))
	r := new(big.Int).Mul(big.NewInt(c), big.NewInt(d))
	return l.Cmp(r)
}
