package pointindex

import (
	"math"

	"github.com/pdok/texel/tms20"
)

func init() {
	verifHarnesses["VerifC14Symbolic"] = VerifC14Symbolic
	verifHarnesses["VerifC14SymbolicCells"] = VerifC14SymbolicCells
	verifHarnesses["VerifC14BuiltIns"] = VerifC14BuiltIns
}

// O-1/O-2: a tile matrix set of n <= 4 matrices whose numeric fields are all symbolic and whose discrete fields
// (id string, corner of origin, variable widths, key gaps) are nondeterministic at one position and well-formed
// elsewhere: acceptance implies every quadtree condition, and validation never panics.
func VerifC14Symbolic() { verifC14Body(false) }

// the same with fully symbolic float64 cell sizes (IEEE division in the solver: slow, thorough tier only)
func VerifC14SymbolicCells() { verifC14Body(true) }

func verifC14Body(symbolicCells bool) {
	n := verifConcretizeInt(int(verifNondetInt("n", 1, 4)))
	free := verifConcretizeInt(int(verifNondetInt("free", 0, int64(n-1)))) // position with free discrete fields
	origin0 := tms20.TwoDPoint{verifNondetFloat64("ox0"), verifNondetFloat64("oy0")}
	originF := tms20.TwoDPoint{verifNondetFloat64("oxf"), verifNondetFloat64("oyf")}
	tms := tms20.TileMatrixSet{CRS: verifCRS{"", "", "", ""}, OrderedAxes: []string{"X", "Y"}, TileMatrices: map[tms20.TMID]tms20.TileMatrix{}}
	keys := make([]int, n)
	mats := make([]tms20.TileMatrix, n)
	key := 0
	for i := 0; i < n; i++ {
		sfx := verifItoa(i)
		if i > 0 {
			gap := 1
			if i == free {
				gap = verifConcretizeInt(int(verifNondetInt("gap", 1, 2)))
			}
			key += gap
		}
		keys[i] = key
		tm := tms20.TileMatrix{
			ID:             verifItoa(key),
			CellSize:       verifC14Cell(i, i == free || i == free+1, symbolicCells, mats),
			CornerOfOrigin: tms20.TopLeft,
			PointOfOrigin:  &origin0,
			TileWidth:      uint(verifNondetUint("tw"+sfx, 0, math.MaxUint64)),
			TileHeight:     uint(verifNondetUint("th"+sfx, 0, math.MaxUint64)),
			MatrixWidth:    uint(verifNondetUint("mw"+sfx, 0, math.MaxUint64)),
			MatrixHeight:   uint(verifNondetUint("mh"+sfx, 0, math.MaxUint64)),
		}
		if i == free {
			switch verifConcretizeInt(int(verifNondetInt("idkind", 0, 2))) {
			case 1:
				tm.ID = verifItoa(key + 1)
			case 2:
				tm.ID = "x" + verifItoa(key)
			}
			if verifConcretizeBool(verifNondetBool("corner")) {
				tm.CornerOfOrigin = tms20.BottomLeft
			}
			if verifConcretizeBool(verifNondetBool("vmw")) {
				tm.VariableMatrixWidths = []tms20.VariableMatrixWidth{{Coalesce: 2, MinTileRow: 0, MaxTileRow: 1}}
			}
			tm.PointOfOrigin = &originF
		}
		mats[i] = tm
		tms.TileMatrices[key] = tm
	}
	var err error
	panicked := false
	func() {
		defer func() {
			if recover() != nil {
				panicked = true
			}
		}()
		err = IsQuadTree(tms)
	}()
	verifAssert(!panicked, "C14.O2.validation-never-panics")
	if panicked {
		return
	}
	if err != nil {
		verifCover("rejected")
		return
	}
	verifCover("accepted")
	for i := 0; i < n; i++ {
		tm := mats[i]
		verifAssert(tm.MatrixWidth == tm.MatrixHeight, "C14.O1.square-matrix")
		verifAssert(tm.TileWidth == tm.TileHeight, "C14.O1.square-tiles")
		verifAssert(tm.ID == verifItoa(keys[i]), "C14.O1.id-is-its-index")
		verifAssert(len(tm.VariableMatrixWidths) == 0, "C14.O1.no-variable-widths")
		if i > 0 {
			p := mats[i-1]
			verifAssert(keys[i] == keys[i-1]+1, "C14.O1.consecutive-ids")
			verifAssert(tm.PointOfOrigin[0] == p.PointOfOrigin[0] && tm.PointOfOrigin[1] == p.PointOfOrigin[1], "C14.O1.common-origin")
			verifAssert(tm.CornerOfOrigin == p.CornerOfOrigin, "C14.O1.common-corner")
			verifAssert(tm.TileWidth == p.TileWidth && tm.TileHeight == p.TileHeight, "C14.O1.constant-tile-size")
			verifAssert(tm.MatrixWidth == 2*p.MatrixWidth && tm.MatrixHeight == 2*p.MatrixHeight, "C14.O1.exact-doubling")
			r := p.CellSize / tm.CellSize
			verifAssert(r >= 1.99 && r <= 2.01, "C14.O1.cell-size-halves-within-tolerance")
		}
	}
}

// verifC14Cell: cell size of matrix i. Either fully symbolic, or the previous cell size divided by a ratio picked from
// values at, inside and outside the tolerance the validation accepts (1.99 .. 2.01).
func verifC14Cell(i int, free, symbolic bool, mats []tms20.TileMatrix) float64 {
	if symbolic {
		return verifNondetFloat64("cell" + verifItoa(i))
	}
	if i == 0 {
		return 1024
	}
	if !free {
		return mats[i-1].CellSize / 2
	}
	ratios := []float64{2, 1.99, 2.01, 1.9899999, 2.0100001, 1, 4, 0.5, math.Inf(1), math.NaN()}
	r := ratios[verifConcretizeInt(int(verifNondetInt("ratio"+verifItoa(i), 0, int64(len(ratios)-1))))]
	return mats[i-1].CellSize / r
}

// O-3: every built-in set is rejected with an error, or is accepted and at every id the pixel size the index uses
// equals cell size / 16 (relative 1e-6). Evaluated through the same interpreter on concrete data.
func VerifC14BuiltIns() {
	name := verifTMSNames[verifConcretizeInt(int(verifNondetInt("set", 0, int64(len(verifTMSNames)-1))))]
	tms := verifTMS(name)
	var err error
	panicked := false
	func() {
		defer func() {
			if recover() != nil {
				panicked = true
			}
		}()
		err = IsQuadTree(tms)
	}()
	verifAssert(!panicked, "C14.O2.validation-never-panics")
	if panicked || err != nil {
		verifCover("builtin-rejected")
		return
	}
	verifCover("builtin-accepted")
	_, has0 := tms.TileMatrices[0]
	verifAssert(has0, "C14.O3.ids-start-at-zero")
	for id := 0; id <= verifMaxID(tms); id++ {
		tm, ok := tms.TileMatrices[id]
		verifAssert(ok, "C14.O3.ids-consecutive")
		g := verifGridOf(tms, id)
		if g.level > 32 {
			continue
		}
		ix, ferr := FromTileMatrixSet(tms, id)
		verifAssert(ferr == nil, "C14.O3.index-built")
		pixel := float64(ix.deepestRes) / 1e10
		rel := pixel*16/tm.CellSize - 1
		verifAssert(rel < 1e-6 && rel > -1e-6, "C14.O3.pixel-size-is-cell-size-over-16")
		verifAssert(ix.deepestSize == uint(tm.MatrixWidth)*uint(tm.TileWidth)*16, "C14.O3.pixels-per-axis")
	}
}
