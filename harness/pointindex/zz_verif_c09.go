package pointindex

import (
	"errors"
	"math"

	"github.com/go-spatial/geom"
	"github.com/pdok/texel/intgeom"
	"github.com/pdok/texel/tms20"
)

var verifHarnesses = map[string]func(){}

func init() {
	verifHarnesses["VerifC09InsertPointQuick"] = VerifC09InsertPointQuick
	verifHarnesses["VerifC09InsertPointThorough"] = VerifC09InsertPointThorough
	verifHarnesses["VerifC09InsertPointSynthetic"] = VerifC09InsertPointSynthetic
	verifHarnesses["VerifC09InsertPointNear"] = VerifC09InsertPointNear
}

// verifGrid describes the expected integer grid of a tile matrix set at a deepest id, derived from public API only:
// extent of tile matrix 0, level = id + log2(tile width) + log2(16).
type verifGrid struct {
	minX, minY, maxX, maxY int64
	level                  uint
	size                   int64 // pixels per axis at the deepest level
	res                    int64 // deepest pixel size in internal units
}

func verifGridOf(tms tms20.TileMatrixSet, id int) verifGrid {
	bl, tr, err := tms.MatrixBoundingBox(0)
	if err != nil {
		panic(err)
	}
	g := verifGrid{
		minX: intgeom.FromGeomOrd(bl[0]), minY: intgeom.FromGeomOrd(bl[1]),
		maxX: intgeom.FromGeomOrd(tr[0]), maxY: intgeom.FromGeomOrd(tr[1]),
	}
	tw := tms.TileMatrices[0].TileWidth
	l := uint(0)
	for (uint(1) << l) < tw {
		l++
	}
	g.level = uint(id) + l + 4
	g.size = int64(1) << g.level
	g.res = (g.maxX - g.minX) / g.size
	return g
}

// verifAcceptedSets lists the built-in sets that pass validation on the current tree.
func verifAcceptedSets() []string {
	var out []string
	for _, n := range verifTMSNames {
		if IsQuadTree(verifTMS(n)) == nil {
			out = append(out, n)
		}
	}
	return out
}

func verifMaxID(tms tms20.TileMatrixSet) int {
	m := 0
	for id := range tms.TileMatrices {
		if id > m {
			m = id
		}
	}
	return m
}

// verifC09Body: for one grid, a point given by its internal integer coordinates (X,Y), anywhere outside the extent
// or within `win` pixels of a border inside it: accepted <=> inside, and never accepted when outside.
func verifC09Body(tms tms20.TileMatrixSet, id int, win int64) { verifC09BodyFar(tms, id, win, int64(1)<<61) }

// verifC09BodyNear: only points within win pixels of the borders (a finite set of pixel addresses per axis)
func verifC09BodyNear(tms tms20.TileMatrixSet, id int, win int64) { verifC09BodyFar(tms, id, win, 0) }

func verifC09BodyFar(tms tms20.TileMatrixSet, id int, win int64, far int64) {
	g := verifGridOf(tms, id)
	verifAssume(g.level <= 32) // deeper levels cannot be keyed (Morton range), see C06
	ix, err := FromTileMatrixSet(tms, id)
	verifAssert(err == nil, "C09.O1.index-built")
	// the floats handed to the API; X, Y are their internal integer coordinates (float step abstracted, see API).
	// Each ordinate is either within `win` pixels of one of the two borders of its axis (inside or outside: the pixel
	// address is case-split there), or arbitrarily far outside (|c| < 2^61).
	fx := verifFloatOfInt1e10(verifC09Ordinate("X", g.minX, g.res, g.size, win, far))
	fy := verifFloatOfInt1e10(verifC09Ordinate("Y", g.minY, g.res, g.size, win, far))
	X, Y := intgeom.FromGeomOrd(fx), intgeom.FromGeomOrd(fy)
	pt := geom.Point{fx, fy}
	insErr := ix.InsertPoint(pt)
	insideGrid := X >= g.minX && X < g.minX+g.size*g.res && Y >= g.minY && Y < g.minY+g.size*g.res
	insideExtent := X >= g.minX && X < g.maxX && Y >= g.minY && Y < g.maxY
	if insErr == nil {
		verifCover("accepted")
		verifAssert(insideExtent, "C09.O1.accepted-implies-inside-extent")
		verifAssert(insideGrid, "C09.O1.accepted-implies-inside-pixel-grid")
	} else {
		verifCover("rejected")
		verifAssert(!insideGrid, "C09.O1.inside-implies-accepted")
		var og OutsideGridError
		verifAssert(errors.As(insErr, &og), "C09.O1.error-type")
	}
}

// verifC09Ordinate: kind 0/1 = within win pixels of the low/high border (either side), 2/3 = far below/above.
func verifC09Ordinate(name string, min, res, size, win, far int64) int64 {
	kinds := int64(3)
	if far == 0 {
		kinds = 1
	}
	switch verifConcretizeInt(int(verifNondetInt(name+".kind", 0, kinds))) {
	case 0:
		return min + verifNondetInt(name, -win*res, win*res-1)
	case 1:
		return min + size*res + verifNondetInt(name, -win*res, win*res-1)
	case 2:
		return verifNondetInt(name, -far, min-win*res-1)
	}
	return verifNondetInt(name, min+(size+win)*res, far)
}

func VerifC09InsertPointQuick() {
	sets := verifAcceptedSets()
	si := verifConcretizeInt(int(verifNondetInt("set", 0, int64(len(sets)-1))))
	tms := verifTMS(sets[si])
	maxID := verifMaxID(tms)
	// quick: ids 0, middle, deepest keyable
	which := verifConcretizeInt(int(verifNondetInt("idsel", 0, 2)))
	id := []int{0, maxID / 2, maxID}[which]
	verifC09Body(tms, id, 2)
}

func VerifC09InsertPointThorough() {
	sets := verifAcceptedSets()
	si := verifConcretizeInt(int(verifNondetInt("set", 0, int64(len(sets)-1))))
	tms := verifTMS(sets[si])
	id := verifConcretizeInt(int(verifNondetInt("id", 0, int64(verifMaxID(tms)))))
	verifC09Body(tms, id, 3)
}

// synthetic grids with non-zero (negative and positive) origins, as in the repo's tests but shifted
// the same grids, but only points within two pixels of a border (either side): every pixel address is case-split,
// so this terminates whatever arithmetic the range check uses
func VerifC09InsertPointNear() {
	ox := []float64{0, -8, 3.5, 100000}[verifConcretizeInt(int(verifNondetInt("ox", 0, 3)))]
	oy := []float64{0, -8, 3.5, -250000.25}[verifConcretizeInt(int(verifNondetInt("oy", 0, 3)))]
	deepest := verifConcretizeInt(int(verifNondetInt("deepest", 0, 2)))
	tms := verifSyntheticTMS(deepest, ox, oy)
	verifC09BodyNear(tms, deepest, 2)
}

func VerifC09InsertPointSynthetic() {
	ox := []float64{0, -8, 3.5, 100000}[verifConcretizeInt(int(verifNondetInt("ox", 0, 3)))]
	oy := []float64{0, -8, 3.5, -250000.25}[verifConcretizeInt(int(verifNondetInt("oy", 0, 3)))]
	deepest := verifConcretizeInt(int(verifNondetInt("deepest", 0, 3)))
	tms := verifSyntheticTMS(deepest, ox, oy)
	id := verifConcretizeInt(int(verifNondetInt("id", 0, int64(deepest))))
	verifC09Body(tms, id, 2)
}

// verifSyntheticTMS: root tile of 16 units (1 unit per pixel at id 0) with 1-pixel tiles, bottom-left origin.
func verifSyntheticTMS(deepest int, ox, oy float64) tms20.TileMatrixSet {
	origin := tms20.TwoDPoint([2]float64{ox, oy})
	tms := tms20.TileMatrixSet{
		CRS:          verifCRS{"", "", "", ""},
		OrderedAxes:  []string{"X", "Y"},
		TileMatrices: map[tms20.TMID]tms20.TileMatrix{},
	}
	for id := 0; id <= deepest; id++ {
		cell := 16.0 / math.Ldexp(1, id)
		tms.TileMatrices[id] = tms20.TileMatrix{
			ID: verifItoa(id), ScaleDenominator: cell / tms20.StandardizedRenderingPixelSize, CellSize: cell,
			CornerOfOrigin: tms20.BottomLeft, PointOfOrigin: &origin,
			TileWidth: 1, TileHeight: 1, MatrixWidth: 1, MatrixHeight: 1,
		}
	}
	return tms
}

func verifItoa(i int) string {
	if i == 0 {
		return "0"
	}
	s := ""
	for i > 0 {
		s = string(rune('0'+i%10)) + s
		i /= 10
	}
	return s
}
