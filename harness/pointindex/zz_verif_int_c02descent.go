package pointindex

import (
	"github.com/pdok/texel/intgeom"
)

func init() {
	verifHarnesses["VerifC02DescentStep"] = VerifC02DescentStep
	verifHarnesses["VerifC02ChildrenTile"] = VerifC02ChildrenTile
}

// O-2 (internal tier): one step of the quadtree descent from an arbitrary parent pixel with arbitrary occupancy of
// its four children and an arbitrary segment that meets the parent: exactly the occupied children the segment meets
// are returned, in order of travel.
func VerifC02DescentStep() {
	const r = int64(1) << 58
	px, py := verifNondetInt("px", -r, r), verifNondetInt("py", -r, r)
	h := verifNondetInt("h", 1, r) // half span
	x1, y1 := verifNondetInt("x1", -r, r), verifNondetInt("y1", -r, r)
	x2, y2 := verifNondetInt("x2", -r, r), verifNondetInt("y2", -r, r)
	parent := Quadrant{
		intExtent:   intgeom.Extent{px, py, px + 2*h, py + 2*h},
		intCentroid: intgeom.Point{px + h, py + h},
	}
	verifAssume(verifMeets(x1, y1, x2, y2, px, py, px+2*h, py+2*h))
	var ext [4]intgeom.Extent
	for q := 0; q < 4; q++ {
		ox, oy := int64(q&1)*h, int64(q>>1)*h
		ext[q] = intgeom.Extent{px + ox, py + oy, px + ox + h, py + oy + h}
	}
	quadrants := make(map[Q]Quadrant, 4)
	names := [4]string{"occ0", "occ1", "occ2", "occ3"}
	var occ [4]bool
	for q := 0; q < 4; q++ {
		occ[q] = verifConcretizeBool(verifNondetBool(names[q]))
		if occ[q] {
			quadrants[q] = Quadrant{intExtent: ext[q]}
		}
	}
	line := intgeom.Line{{x1, y1}, {x2, y2}}
	got := findIntersectingQuadrants(line, quadrants, parent)
	verifCover("descent-step")
	var inGot [4]bool
	for i, q := range got {
		verifAssert(q >= 0 && q < 4, "C02.O2.valid-quadrant")
		verifAssert(!inGot[q], "C02.O2.no-duplicate")
		inGot[q] = true
		if i > 0 {
			p := got[i-1]
			ea := verifEntry(x1, y1, x2, y2, ext[p][0], ext[p][1], ext[p][2], ext[p][3])
			eb := verifEntry(x1, y1, x2, y2, ext[q][0], ext[q][1], ext[q][2], ext[q][3])
			verifAssert(verifBefore(ea, eb), "C02.O2.order-of-travel")
		}
	}
	for q := 0; q < 4; q++ {
		want := occ[q] && verifMeets(x1, y1, x2, y2, ext[q][0], ext[q][1], ext[q][2], ext[q][3])
		if len(got) > 1 {
			verifCover("several-children")
		}
		verifAssert(inGot[q] == want, "C02.O2.exactly-the-children-met")
	}
}

// O-1 (internal tier): the four children of a pixel tile it exactly at its centre, for every level pair and every
// pixel size (this is what makes the case analysis on infinite quadrants sound).
func VerifC02ChildrenTile() {
	deepest := verifConcretizeUint(uint(verifNondetUint("deepest", 1, 32)))
	level := verifConcretizeUint(uint(verifNondetUint("level", 0, uint64(deepest-1))))
	res := verifNondetInt("res", 1, 1<<22)
	minX, minY := verifNondetInt("minX", -(1 << 58), 1<<58), verifNondetInt("minY", -(1 << 58), 1<<58)
	n := int64(1) << level
	x, y := verifNondetInt("x", 0, n-1), verifNondetInt("y", 0, n-1)
	ix := &PointIndex{deepestLevel: deepest, deepestSize: 1 << deepest, deepestRes: res}
	span := (int64(1) << deepest) * res
	root := intgeom.Extent{minX, minY, minX + span, minY + span}
	pe, pc := ix.getQuadrantExtentAndCentroid(level, uint(x), uint(y), root)
	verifCover("children-tile")
	verifAssert(pc[0] > pe[0] && pc[0] < pe[2] && pc[1] > pe[1] && pc[1] < pe[3], "C02.O1.centre-inside")
	verifAssert(pc[0]-pe[0] == pe[2]-pc[0] && pc[1]-pe[1] == pe[3]-pc[1], "C02.O1.centre-is-the-middle")
	for q := 0; q < 4; q++ {
		ce, cc := ix.getQuadrantExtentAndCentroid(level+1, uint(2*x)+uint(q&1), uint(2*y)+uint(q>>1), root)
		wantMinX, wantMaxX := pe[0], pc[0]
		if q&1 == 1 {
			wantMinX, wantMaxX = pc[0], pe[2]
		}
		wantMinY, wantMaxY := pe[1], pc[1]
		if q>>1 == 1 {
			wantMinY, wantMaxY = pc[1], pe[3]
		}
		verifAssert(ce[0] == wantMinX && ce[2] == wantMaxX && ce[1] == wantMinY && ce[3] == wantMaxY, "C02.O1.children-partition-parent")
		verifAssert(containsPoint(cc, ce), "C02.O1.child-centre-in-child")
	}
}
