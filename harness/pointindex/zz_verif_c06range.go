package pointindex

func init() {
	verifHarnesses["VerifC06MortonRange"] = VerifC06MortonRange
}

// C06 O-3 (public API, bit-vector semantics): inserting any in-range pixel address into the index of an accepted
// built-in set never panics. Levels deeper than 32 need more than 32 address bits, which the Z-order key cannot hold
// (DESIGN F3): that class is asserted under its own id so that it is reported as a known finding.
func VerifC06MortonRange() {
	sets := verifAcceptedSets()
	set := sets[verifConcretizeInt(int(verifNondetInt("set", 0, int64(len(sets)-1))))]
	tms := verifTMS(set)
	maxID := verifMaxID(tms)
	// ids: deepest, and the two around level 32 where they exist
	g0 := verifGridOf(tms, 0)
	at32 := 32 - int(g0.level)
	cands := []int{maxID, at32, at32 + 1, maxID / 2}
	id := cands[verifConcretizeInt(int(verifNondetInt("idsel", 0, 3)))]
	verifAssume(id >= 0 && id <= maxID)
	ix, err := FromTileMatrixSet(tms, id)
	verifAssert(err == nil, "C06.O3.index-built")
	size := uint64(ix.deepestSize)
	x := int(verifNondetUint("x", 0, size-1))
	y := int(verifNondetUint("y", 0, size-1))
	panicked := false
	var ierr error
	func() {
		defer func() {
			if recover() != nil {
				panicked = true
			}
		}()
		ierr = ix.InsertCoord(x, y)
	}()
	verifCover("inserted")
	if ix.deepestLevel <= 32 {
		verifAssert(!panicked && ierr == nil, "C06.O3.in-range-address-inserted-without-panic")
	} else {
		verifCover("level-above-32")
		verifAssert(!panicked && ierr == nil, "C06.O3.KF-F3.in-range-address-inserted-without-panic-at-level-above-32")
	}
}
