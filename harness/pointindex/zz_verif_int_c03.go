package pointindex

import (
	"math"

	"github.com/pdok/texel/intgeom"
)

func init() {
	verifHarnesses["VerifC03CentresQuick"] = VerifC03CentresQuick
	verifHarnesses["VerifC03CentresThorough"] = VerifC03CentresThorough
}

// O-1 (internal tier): for an accepted built-in set, deepest id d and requested id z <= d, the pixel extent and centre
// computed for a symbolic pixel address are the exact integer forms min + X*span (+ span/2), the pixel grid lies
// inside the extent, and the float centre is within the reported deviation (plus float noise) of the ideal centre
// corner + (X + 1/2) * cellSize(0)/2^z/16 at both ends of the axis (the error is linear in X).
func verifC03Body(set string, d, z int) {
	tms := verifTMS(set)
	g := verifGridOf(tms, d)
	verifAssume(g.level <= 32)
	ix, err := FromTileMatrixSet(tms, d)
	verifAssert(err == nil, "C03.O1.index-built")
	lz := g.level - uint(d-z)
	n := int64(1) << lz
	X, Y := verifNondetInt("X", 0, n-1), verifNondetInt("Y", 0, n-1)
	ext, c := ix.getQuadrantExtentAndCentroid(lz, uint(X), uint(Y), ix.intExtent)
	span := (int64(1) << (g.level - lz)) * g.res
	verifCover("centre")
	verifAssert(ext[0] == g.minX+X*span && ext[1] == g.minY+Y*span && ext[2] == ext[0]+span && ext[3] == ext[1]+span, "C03.O1.pixel-extent-is-min-plus-address-times-span")
	verifAssert(c[0] == ext[0]+span/2 && c[1] == ext[1]+span/2, "C03.O1.centre-is-middle-of-pixel")
	verifAssert(span*n <= g.maxX-g.minX && g.maxX-g.minX-span*n < g.size, "C03.O1.pixel-grid-fills-extent-up-to-truncation")
	verifAssert(lz == g.level || span%2 == 0, "C03.O1.span-even-above-deepest-level")
	// tolerance at both ends of each axis (concrete floats)
	_, devUnits, _, derr := DeviationStats(tms, d)
	verifAssert(derr == nil, "C03.O1.deviation-available")
	tm0 := tms.TileMatrices[0]
	pix := tm0.CellSize * float64(tm0.MatrixWidth) * float64(tm0.TileWidth) / math.Ldexp(1, int(lz))
	bl, _, _ := tms.MatrixBoundingBox(0)
	mag := math.Max(math.Abs(bl[0]), math.Abs(bl[1])) + pix*float64(n)
	slack := 2e-9 + 8*(math.Nextafter(mag, math.Inf(1))-mag)
	for _, xe := range []int64{0, n - 1} {
		for ax := 0; ax < 2; ax++ {
			min := g.minX
			if ax == 1 {
				min = g.minY
			}
			actual := intgeom.ToGeomOrd(min + xe*span + span/2)
			ideal := bl[ax] + (float64(xe)+0.5)*pix
			verifAssert(math.Abs(actual-ideal) <= math.Abs(devUnits)+slack, "C03.O1.centre-within-reported-deviation-of-ideal")
		}
	}
}

func VerifC03CentresQuick() {
	sets := verifAcceptedSets()
	set := sets[verifConcretizeInt(int(verifNondetInt("set", 0, int64(len(sets)-1))))]
	maxID := verifMaxID(verifTMS(set))
	d := []int{0, maxID / 2, maxID}[verifConcretizeInt(int(verifNondetInt("dsel", 0, 2)))]
	z := []int{0, d / 2, d}[verifConcretizeInt(int(verifNondetInt("zsel", 0, 2)))]
	verifC03Body(set, d, z)
}

func VerifC03CentresThorough() {
	sets := verifAcceptedSets()
	set := sets[verifConcretizeInt(int(verifNondetInt("set", 0, int64(len(sets)-1))))]
	maxID := verifMaxID(verifTMS(set))
	d := verifConcretizeInt(int(verifNondetInt("d", 0, int64(maxID))))
	z := verifConcretizeInt(int(verifNondetInt("z", 0, int64(d))))
	verifC03Body(set, d, z)
}
