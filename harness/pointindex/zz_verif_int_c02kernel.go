package pointindex

import "github.com/pdok/texel/intgeom"

func init() {
	verifHarnesses["VerifC02KernelFull"] = VerifC02KernelFull
	verifHarnesses["VerifC02KernelLattice"] = VerifC02KernelLattice
}

// O-0 (internal tier): lineIntersects(l, e) <=> closed segment meets half-open box, all integer inputs.
func VerifC02KernelFull() {
	const r = int64(1) << 60
	x1, y1 := verifNondetInt("x1", -r, r), verifNondetInt("y1", -r, r)
	x2, y2 := verifNondetInt("x2", -r, r), verifNondetInt("y2", -r, r)
	minx, miny := verifNondetInt("minx", -r, r), verifNondetInt("miny", -r, r)
	w, h := verifNondetInt("w", 1, r), verifNondetInt("h", 1, r)
	got := lineIntersects(intgeom.Line{{x1, y1}, {x2, y2}}, intgeom.Extent{minx, miny, minx + w, miny + h})
	want := verifMeets(x1, y1, x2, y2, minx, miny, minx+w, miny+h)
	if want {
		verifCover("meets")
	} else {
		verifCover("misses")
	}
	verifAssert(got == want, "C02.O0.kernel-equals-oracle")
}

// the same on a small lattice: coordinates are multiples of a quarter pixel within a 4x4-pixel window around a
// one-pixel box (pixel = 1 unit = 1e10 internal units): small enough for exact IEEE reasoning.
func VerifC02KernelLattice() {
	const q = int64(2500000000)
	x1, y1 := q*verifNondetInt("x1", -6, 10), q*verifNondetInt("y1", -6, 10)
	x2, y2 := q*verifNondetInt("x2", -6, 10), q*verifNondetInt("y2", -6, 10)
	minx, miny := 4*q*verifNondetInt("bx", 0, 1), 4*q*verifNondetInt("by", 0, 1)
	got := lineIntersects(intgeom.Line{{x1, y1}, {x2, y2}}, intgeom.Extent{minx, miny, minx + 4*q, miny + 4*q})
	want := verifMeets(x1, y1, x2, y2, minx, miny, minx+4*q, miny+4*q)
	if want {
		verifCover("meets")
	} else {
		verifCover("misses")
	}
	verifAssert(got == want, "C02.O0.kernel-equals-oracle")
}

// verifLineIntersectsContract has the signature of lineIntersects and computes the oracle. Obligation O-0 proves the
// two equal for all inputs; other obligations may therefore run with lineIntersects replaced by this (single-term) form.
func verifLineIntersectsContract(l intgeom.Line, e intgeom.Extent) bool {
	return verifMeets(l[0][0], l[0][1], l[1][0], l[1][1], e[0], e[1], e[2], e[3])
}
