#!/bin/sh
# usage: calib.sh <seconds> "<prop> <tier> <harness>" ...   (development helper: measures path counts / wall time)
T=$1; shift
cd /verif
for spec in "$@"; do
  set -- $spec
  rm -rf .work
  timeout $T ./check $1 --tier $2 --no-evidence --only $3 > /tmp/calib_$3.log 2>&1
  echo "$1 $3: $(grep -E 'paths=|paths done' /tmp/calib_$3.log | tail -1 | cut -c1-150) $(grep -E 'VIOLATION|PROBLEM|VACUOUS|violated' /tmp/calib_$3.log | head -3 | cut -c1-300)"
done
