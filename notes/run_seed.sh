#!/bin/sh
# usage: run_seed.sh <seed-id> <tier> <prop>...   applies /verif/seeded/<seed-id>/patch.diff to /repo, runs the checks, reverts
seed=$1; tier=$2; shift; shift
cd /repo && git status --porcelain | grep -q . && { echo "/repo not clean"; exit 2; }
git -C /repo apply /verif/seeded/$seed/patch.diff || { echo "patch failed"; exit 2; }
cd /verif
for p in "$@"; do
  s=$(date +%s)
  ./check $p --tier $tier --no-evidence > /tmp/seedrun_${seed}_$p.log 2>&1
  rc=$?
  e=$(date +%s)
  echo "seed=$seed check=$p tier=$tier rc=$rc $((e-s))s $(grep -c '^VIOLATION' /tmp/seedrun_${seed}_$p.log) violation lines; $(grep -E 'violated' /tmp/seedrun_${seed}_$p.log | head -2 | cut -c1-200 | tr '\n' ' ')"
done
git -C /repo checkout -- .
