#!/bin/sh
# usage: verify_seed.sh <id>  -- confirms a seeded change in /tmp/seed/<id>: suite passes with it, demo fails with it, demo passes without it
export GOFLAGS=-mod=mod GOPROXY=off GOSUMDB=off GOTOOLCHAIN=local
id=$1; d=${SEEDROOT:-/tmp/seed}/$id
cd $d || exit 2
demo=$(git status --porcelain | grep 'zz_seed_demo_test.go' | awk '{print $2}')
pkg=./$(dirname $demo)
echo "demo=$demo pkg=$pkg"
git diff --stat | tail -1
# 1. suite with change (demo moved aside)
mv $demo /tmp/$id.demo.go.aside
go build ./... && go test -vet=off -count=1 ./... 2>&1 | grep -v "no test files" | tr '\n' ' '; echo
mv /tmp/$id.demo.go.aside $demo
# 2. demo with change
go test -vet=off -count=1 -run 'Seed|seed|ZZ' $pkg 2>&1 | tail -3 | tr '\n' ' '; echo " <- demo WITH change"
# 3. demo without change
git diff -- . ':!*_test.go' > /tmp/$id.src.diff
git apply -R /tmp/$id.src.diff
go test -vet=off -count=1 -run 'Seed|seed|ZZ' $pkg 2>&1 | tail -2 | tr '\n' ' '; echo " <- demo WITHOUT change"
git apply /tmp/$id.src.diff
