#!/bin/sh
# development helper: runs every thorough check with a short time box per obligation to look for alarms
cd /verif
for id in "$@"; do
  s=$(date +%s)
  ./check $id --tier thorough --no-evidence --deadline-sec ${BOX:-150} > /tmp/thor_$id.log 2>&1
  rc=$?
  e=$(date +%s)
  echo "$id rc=$rc $((e-s))s $(grep -a -E "^$id thorough:" /tmp/thor_$id.log)"
  grep -a -E "VIOLATION|KNOWN-FINDING|VACUOUS|CHECK-ERROR|PROBLEM|WARNING|violated" /tmp/thor_$id.log | cut -c1-300 | head -8
done
