#!/bin/sh
cd /verif
notes/run_seed.sh C17 quick C17
notes/run_seed.sh C14 quick C14
notes/run_seed.sh C10 quick C10
notes/run_seed.sh C11 quick C11
notes/run_seed.sh C15 quick C15
notes/run_seed.sh C02 quick C02
notes/run_seed.sh C01 quick C01 C02
notes/run_seed.sh C09 quick C09
notes/run_seed.sh C04 quick C04
notes/run_seed.sh C18 quick C18
notes/run_seed.sh C07 quick C07
notes/run_seed.sh C06 quick C06
notes/run_seed.sh C08 quick C08
notes/run_seed.sh C05 quick C05
notes/run_seed.sh C03 quick C03 C08
