#!/bin/sh
cd /verif
notes/run_seed.sh C06-r2 quick C06
notes/run_seed.sh C01-r2 quick C01 C02
