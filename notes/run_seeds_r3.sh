#!/bin/sh
# round-3 seeds against the quick tier of the property they target
cd /verif
for id in C17 C14 C02 C03 C10 C11 C15; do
  notes/run_seed.sh $id-r3 quick $id
done
