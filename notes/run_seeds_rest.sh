#!/bin/sh
cd /verif
notes/run_seed.sh C06 quick C06
notes/run_seed.sh C03 quick C03 C08
notes/run_seed.sh C09 quick C09
notes/run_seed.sh C05 quick C05
