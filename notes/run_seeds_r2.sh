#!/bin/sh
cd /verif
notes/run_seed.sh C09-r2 quick C09
notes/run_seed.sh C05-r2 quick C05
notes/run_seed.sh C08-r2 quick C08
notes/run_seed.sh C07-r2 quick C07
notes/run_seed.sh C04-r2 quick C04 C18
