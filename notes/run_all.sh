#!/bin/sh
# usage: run_all.sh <tier> <ids...>  -- runs the registered checks one after the other, logging time and verdict lines
tier=$1; shift
cd /verif
for id in "$@"; do
  s=$(date +%s)
  ./check $id --tier $tier > /tmp/run_$id.log 2>&1
  rc=$?
  e=$(date +%s)
  echo "$id rc=$rc $((e-s))s $(grep -E "^$id $tier:" /tmp/run_$id.log)"
  grep -E "VIOLATION|KNOWN-FINDING|VACUOUS|CHECK-ERROR|PROBLEM|WARNING|violated" /tmp/run_$id.log | cut -c1-400 | head -8
done
